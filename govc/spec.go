package main

// Contract expression language: lexer, parser, AST.

import (
	"fmt"
	"strings"
)

type Expr struct {
	Op   string  // "int","bool","nil","str","id","un","bin","field","index","call","old","forall","exists","let","chain"
	Name string  // identifier / operator / field name / bound var
	Args []*Expr // operands
	Pos  string
}

func (e *Expr) String() string {
	switch e.Op {
	case "int", "id", "bool", "nil":
		return e.Name
	case "str":
		return fmt.Sprintf("%q", e.Name)
	case "un":
		return e.Name + e.Args[0].String()
	case "bin":
		return "(" + e.Args[0].String() + " " + e.Name + " " + e.Args[1].String() + ")"
	case "field":
		return e.Args[0].String() + "." + e.Name
	case "index":
		return e.Args[0].String() + "[" + e.Args[1].String() + "]"
	case "call":
		var a []string
		for _, x := range e.Args {
			a = append(a, x.String())
		}
		return e.Name + "(" + strings.Join(a, ", ") + ")"
	case "old":
		return "old(" + e.Args[0].String() + ")"
	case "forall", "exists":
		return "(" + e.Op + " " + e.Name + " in " + e.Args[0].String() + ".." + e.Args[1].String() + ": " + e.Args[2].String() + ")"
	case "let":
		return "(let " + e.Name + " := " + e.Args[0].String() + " in " + e.Args[1].String() + ")"
	}
	return "?" + e.Op
}

type tok struct {
	k string // "int","id","str","op","eof"
	s string
}

func lexSpec(src string) ([]tok, error) {
	var out []tok
	i := 0
	for i < len(src) {
		c := src[i]
		switch {
		case c == ' ' || c == '\t' || c == '\n' || c == '\r':
			i++
		case c >= '0' && c <= '9':
			j := i
			if c == '0' && i+1 < len(src) && (src[i+1] == 'x' || src[i+1] == 'X') {
				j = i + 2
				for j < len(src) && strings.ContainsRune("0123456789abcdefABCDEF", rune(src[j])) {
					j++
				}
			} else {
				for j < len(src) && src[j] >= '0' && src[j] <= '9' {
					j++
				}
			}
			out = append(out, tok{"int", src[i:j]})
			i = j
		case c == '_' || c >= 'a' && c <= 'z' || c >= 'A' && c <= 'Z' || c == '$':
			j := i
			for j < len(src) && (src[j] == '_' || src[j] == '$' || src[j] >= 'a' && src[j] <= 'z' || src[j] >= 'A' && src[j] <= 'Z' || src[j] >= '0' && src[j] <= '9') {
				j++
			}
			out = append(out, tok{"id", src[i:j]})
			i = j
		case c == '"':
			j := i + 1
			for j < len(src) && src[j] != '"' {
				j++
			}
			if j >= len(src) {
				return nil, fmt.Errorf("unterminated string")
			}
			out = append(out, tok{"str", src[i+1 : j]})
			i = j + 1
		default:
			ops := []string{"<==>", "==>", "..", ":=", "==", "!=", "<=", ">=", "&&", "||", "<<", ">>", "++",
				"(", ")", "[", "]", ",", ":", "+", "-", "*", "/", "%", "<", ">", "!", "#", ".", "&", "|", "^"}
			found := false
			for _, o := range ops {
				if strings.HasPrefix(src[i:], o) {
					out = append(out, tok{"op", o})
					i += len(o)
					found = true
					break
				}
			}
			if !found {
				return nil, fmt.Errorf("bad character %q at %d in %q", c, i, src)
			}
		}
	}
	out = append(out, tok{"eof", ""})
	return out, nil
}

type sparser struct {
	t   []tok
	p   int
	src string
}

func parseSpecExpr(src string) (e *Expr, err error) {
	t, err := lexSpec(src)
	if err != nil {
		return nil, err
	}
	ps := &sparser{t: t, src: src}
	defer func() {
		if r := recover(); r != nil {
			if s, ok := r.(specErr); ok {
				err = fmt.Errorf("%s in %q", string(s), src)
				return
			}
			panic(r)
		}
	}()
	e = ps.expr(0)
	if ps.peek().k != "eof" {
		ps.fail("trailing tokens at " + ps.peek().s)
	}
	return e, nil
}

type specErr string

func (p *sparser) fail(m string)  { panic(specErr(m)) }
func (p *sparser) peek() tok      { return p.t[p.p] }
func (p *sparser) next() tok      { x := p.t[p.p]; p.p++; return x }
func (p *sparser) isOp(s string) bool { return p.peek().k == "op" && p.peek().s == s }
func (p *sparser) isId(s string) bool { return p.peek().k == "id" && p.peek().s == s }
func (p *sparser) expect(s string) {
	if !p.isOp(s) {
		p.fail("expected " + s + " got " + p.peek().s)
	}
	p.p++
}

var binPrec = map[string]int{
	"<==>": 1, "==>": 1, "||": 2, "&&": 3,
	"==": 4, "!=": 4, "<": 4, "<=": 4, ">": 4, ">=": 4,
	"+": 5, "-": 5, "|": 5, "^": 5, "++": 5,
	"*": 6, "/": 6, "%": 6, "&": 6, "<<": 6, ">>": 6,
}

func (p *sparser) expr(min int) *Expr {
	// quantifiers / let bind loosest
	if p.isId("forall") || p.isId("exists") {
		q := p.next().s
		v := p.next()
		if v.k != "id" {
			p.fail("bound variable expected")
		}
		if !p.isId("in") {
			p.fail("expected 'in'")
		}
		p.next()
		lo := p.expr(5)
		p.expect("..")
		hi := p.expr(5)
		p.expect(":")
		body := p.expr(0)
		return &Expr{Op: q, Name: v.s, Args: []*Expr{lo, hi, body}}
	}
	if p.isId("let") {
		p.next()
		v := p.next()
		p.expect(":=")
		d := p.expr(2)
		if !p.isId("in") {
			p.fail("expected 'in'")
		}
		p.next()
		body := p.expr(0)
		return &Expr{Op: "let", Name: v.s, Args: []*Expr{d, body}}
	}
	lhs := p.unary()
	for {
		t := p.peek()
		if t.k != "op" {
			break
		}
		pr, ok := binPrec[t.s]
		if !ok || pr < min {
			break
		}
		p.next()
		if pr == 1 { // right assoc
			rhs := p.expr(pr)
			lhs = &Expr{Op: "bin", Name: t.s, Args: []*Expr{lhs, rhs}}
			continue
		}
		rhs := p.expr(pr + 1)
		if pr == 4 {
			// chained comparison a <= b < c
			cur := &Expr{Op: "bin", Name: t.s, Args: []*Expr{lhs, rhs}}
			last := rhs
			for {
				t2 := p.peek()
				if t2.k == "op" && binPrec[t2.s] == 4 {
					p.next()
					r2 := p.expr(5)
					cur = &Expr{Op: "bin", Name: "&&", Args: []*Expr{cur, {Op: "bin", Name: t2.s, Args: []*Expr{last, r2}}}}
					last = r2
					continue
				}
				break
			}
			lhs = cur
			continue
		}
		lhs = &Expr{Op: "bin", Name: t.s, Args: []*Expr{lhs, rhs}}
	}
	return lhs
}

func (p *sparser) unary() *Expr {
	if p.isOp("!") || p.isOp("-") || p.isOp("#") || p.isOp("*") {
		o := p.next().s
		x := p.unary()
		return &Expr{Op: "un", Name: o, Args: []*Expr{x}}
	}
	return p.postfix(p.primary())
}

func (p *sparser) primary() *Expr {
	t := p.next()
	switch t.k {
	case "int":
		return &Expr{Op: "int", Name: t.s}
	case "str":
		return &Expr{Op: "str", Name: t.s}
	case "id":
		switch t.s {
		case "true", "false":
			return &Expr{Op: "bool", Name: t.s}
		case "nil":
			return &Expr{Op: "nil", Name: "nil"}
		case "old":
			p.expect("(")
			e := p.expr(0)
			p.expect(")")
			return &Expr{Op: "old", Args: []*Expr{e}}
		}
		if p.isOp("(") {
			p.next()
			var args []*Expr
			for !p.isOp(")") {
				args = append(args, p.expr(0))
				if p.isOp(",") {
					p.next()
				} else {
					break
				}
			}
			p.expect(")")
			return &Expr{Op: "call", Name: t.s, Args: args}
		}
		return &Expr{Op: "id", Name: t.s}
	case "op":
		if t.s == "(" {
			e := p.expr(0)
			p.expect(")")
			return e
		}
	}
	p.fail("unexpected token " + t.s)
	return nil
}

func (p *sparser) postfix(e *Expr) *Expr {
	for {
		if p.isOp(".") {
			p.next()
			n := p.next()
			if n.k != "id" && !(n.k == "op" && n.s == "*") {
				p.fail("field name expected")
			}
			e = &Expr{Op: "field", Name: n.s, Args: []*Expr{e}}
			continue
		}
		if p.isOp("[") {
			p.next()
			i := p.expr(0)
			p.expect("]")
			e = &Expr{Op: "index", Args: []*Expr{e, i}}
			continue
		}
		return e
	}
}

// substitute identifiers (macro expansion of predicates); capture-naive but
// bound variables of quantifiers shadow.
func (e *Expr) subst(m map[string]*Expr) *Expr {
	if e == nil {
		return nil
	}
	switch e.Op {
	case "id":
		if r, ok := m[e.Name]; ok {
			return r
		}
		return e
	case "forall", "exists", "let":
		m2 := m
		if _, ok := m[e.Name]; ok {
			m2 = map[string]*Expr{}
			for k, v := range m {
				if k != e.Name {
					m2[k] = v
				}
			}
		}
		n := &Expr{Op: e.Op, Name: e.Name}
		for i, a := range e.Args {
			if e.Op == "let" && i == 0 {
				n.Args = append(n.Args, a.subst(m))
			} else if (e.Op == "forall" || e.Op == "exists") && i < 2 {
				n.Args = append(n.Args, a.subst(m))
			} else {
				n.Args = append(n.Args, a.subst(m2))
			}
		}
		return n
	}
	n := &Expr{Op: e.Op, Name: e.Name, Pos: e.Pos}
	for _, a := range e.Args {
		n.Args = append(n.Args, a.subst(m))
	}
	return n
}

// split top-level conjunctions
func conjuncts(e *Expr) []*Expr {
	if e.Op == "bin" && e.Name == "&&" {
		return append(conjuncts(e.Args[0]), conjuncts(e.Args[1])...)
	}
	return []*Expr{e}
}
