package main

// govc check <property>: the registered quick/thorough command.

import (
	"runtime/debug"
	"encoding/json"
	"flag"
	"fmt"
	"golang.org/x/tools/go/ssa"
	"os"
	"path/filepath"
	"regexp"
	"sort"
	"strconv"
	"strings"
	"time"
)

type KnownFinding struct {
	Property   string `json:"property"`
	Obligation string `json:"obligation"` // "<func key> <clause>" without path suffix
	Status     string `json:"status"`     // known | fixed
	Commit     string `json:"commit,omitempty"`
	What       string `json:"what"`
	Match      string `json:"match,omitempty"` // bounded checks: substring identifying the failing-input lines of this finding
}

type propConfig struct {
	Gen     bool     // needs the generated corpus
	Dynamic []string // names of bounded/dynamic side checks
	Bounded []boundedCheck
}

// boundedCheck: a bounded stand-in (labelled as such, never counted as proved)
// run on the real code on every check of the property.
type boundedCheck struct {
	Name, PkgRel, File, Run, Bound string
	Module, Race                   bool // run in the generated-code module of /verif/replay (optionally under the race detector)
}

var propConfigs = map[string]propConfig{
	"C17": {},
	"C09": {Gen: true, Bounded: []boundedCheck{{Name: "failing-sink", Run: "TestReplayC09", Module: true,
		Bound: "sink failing at its k-th Write for every k < 400 (one-shot and sticky failures), three codecs, a 7-record workload of the Rec shape with page size 2 and two Write calls: every API call during which a sink write failed must return a non-nil error"}}},
	"C10": {Gen: true, Bounded: []boundedCheck{{Name: "failing-source", Run: "TestReplayC10", Module: true,
		Bound: "source failing at its k-th Read/Seek for every k the read performs (k < 5000), three codecs, a 9-record two-row-group file of the Rec shape with page size 3: an error is reported or every delivered row is correct"}}},
	"C12": {Gen: true, Bounded: []boundedCheck{{Name: "page-statistics", Run: "TestReplayC12", Module: true,
		Bound: "60 seeded record sets of the Rec shape (extreme, negative, NaN, empty, reserved-looking and long strings with long common prefixes injected), varying page sizes, one to three row groups per file, uncompressed; columns checked: name (string, optional), id (int64), count (uint32, unsigned order), amount (int32), ratio (optional float64): null_count, min and max of every page header recomputed independently from the records, min/max absent on pages without a value"}}},
	"C08": {Gen: true, Bounded: []boundedCheck{{Name: "fragmented-reads", Run: "TestReplayC08", Module: true,
		Bound: "an 11-record two-row-group file of the Rec shape per codec read through sources returning at most 1, 2, 3, 7, 64 bytes per call, five seeded random short-read patterns and data together with io.EOF: same records, no error"}}},
	"C11": {Gen: true, Bounded: []boundedCheck{{Name: "every-prefix", Run: "TestReplayC11", Module: true,
		Bound: "every strict prefix of files (three codecs, three row groups) whose string values embed complete trailers of a smaller file and trailer look-alikes with footer lengths 0, 1, 2 and 2^31-1, plus 56 look-alikes whose length word addresses a 2..3-byte fragment that starts like a thrift field (string, list, struct, varint) and runs into the end of the prefix (four row groups): none may be accepted"}}},
	"C18": {Gen: true, Bounded: []boundedCheck{{Name: "unsupported-headers", Run: "TestReplayC18", Module: true,
		Bound: "every page header of a Rec file rewritten in place to DICTIONARY/INDEX/V2 page types, non-PLAIN value encodings, BIT_PACKED level encodings, and a dictionary page without data page header, three codecs: every such file must be refused without panic"}}},
	"C16": {Bounded: []boundedCheck{{Name: "independent-walk", Run: "TestReplayC16", Module: true,
		Bound: "files of the Rec shape: 17 records, page sizes 1,2,3,5,100, partitions {17},{9,8},{4,6,7}, three codecs: PageHeaders(footer) compared (order and content) with an independent walk of every chunk page by page in file order, PageHeadersAtOffset compared per chunk; stands in for the one introspection function without a deductive contract (PageHeaders concatenates the per-chunk lists in row-group/column order)"}}},
	"C02": {Gen: true, Bounded: []boundedCheck{{Name: "independent-parse", Run: "TestBoundedC02", Module: true,
		Bound: "struct shapes (six small chain shapes under replay/shapes with the expected columns derived from the Go type; Rec: required/optional/repeated columns of every physical type and one repeated group; Deep: groups nested three levels, the same group name under two parents, a repeated group inside a repeated group, fully required nesting), 11 Add/Write histories (Rec) and 6 batch partitions (Deep), page sizes 1,2,3,4,5,8,1000, three codecs: every file parsed by an independent checker (schema tree walked by num_children against the expected leaves with path, type, converted type and repetition; chunks one to one with the leaves in order; offsets contiguous from byte 4 to the footer; every page decompressed, level sections decoded with an own RLE/bit-packing decoder, value sections measured by type; header sizes, value counts, chunk totals, row counts, records per page <= page size, pages starting at record boundaries; footer length word and both magics)"}}},
	"C03": {Gen: true, Bounded: []boundedCheck{{Name: "independent-striping", Run: "TestBoundedC03", Module: true,
		Bound: "struct shapes Rec, Deep (24 seeded random record sets each) and six small chain shapes (replay/shapes, 40 sets each) (1..60 records; every pointer nil one time in three, lists of length 0..3 and occasionally 9..17 at every nesting level, extreme values): the repetition level, definition level and PLAIN value of every entry of every column, decoded from the written file by the independent parser, compared with an independent implementation of Dremel striping written from the paper over Go reflection; thorough tier: 480 record sets per shape"}}},
	"C01": {Gen: true, Bounded: []boundedCheck{{Name: "round-trip", Run: "TestBoundedC01", Module: true,
		Bound: "struct shapes Rec, Deep, three regression shapes of repaired finding D11 and four shapes of the known findings D10/D12 (replay/shapes, replay/opp; 40 record sets each), 39 resp. 30 resp. 40 seeded random record sets (0..120 records, three sets of 1300 records in pages of 600..2000 records so that level streams hold bit-packed runs beyond 504 values; nil/non-nil optionals and list lengths 0..3/9..17 at every level; min/max integers, +-0, +-Inf, NaN payloads, empty/long/non-UTF8 strings), partitions {one batch, two batches, one record per batch, 1/n3/rest}, page sizes 1,2,3,7,1000, three codecs: records read back and compared entry by entry (floats bit for bit, nil and empty lists alike), Rows(), number of true Next() calls, Error()==nil; every record's slices and strings mutated by the caller right after Add; all records compared only after the last one was scanned; thorough tier: 400 record sets per shape"}}},
	"C04": {Gen: true, Bounded: []boundedCheck{{Name: "foreign-encodings", Run: "TestBoundedC04", Module: true,
		Bound: "60 files (1..700 records of the Rec shape, 1-2 row groups, written with each codec and page sizes 1/3/8/1000) re-encoded by an independent rewriter into another legal encoding of the same content (seeded random: RLE runs of any length >= 1, bit-packed runs of any group count incl. > 63 groups with multi-byte headers, padding bits of the last group set to 1, pages split per column at arbitrary record boundaries, a codec per column, statistics/created_by present or absent, ColumnChunk.file_offset = first page / 0 / position after the chunk); each rewritten file is first accepted by the independent checker and decoded back to the same columns, then read with the generated reader and compared record by record; thorough tier: 600 files"},
		{Name: "level-decoder-foreign-encodings", PkgRel: "internal/rle", File: "replay/rle_bounded_test.go.txt", Run: "TestBoundedC07",
			Bound: "the library's level decoder against an independent specification decoder on foreign legal encodings (bound as stated for C07)"}}},
	"C06": {Gen: true, Bounded: []boundedCheck{{Name: "history-enumeration", Run: "TestBoundedC06", Module: true,
		Bound: "every history over {Add, Write} of length <= 7 (gzip: <= 5) ended by Close, page sizes 1..3, three codecs, plus 7 longer shapes (page-size multiples followed by empty Writes, records pending at Close) at page sizes 1..4: footer row groups/NumRows/offsets/sizes parsed independently and compared with a list-of-batches model, every chunk walked page by page, records read back and compared, files with and without empty Writes compared byte for byte; thorough tier: every history of length <= 10 (gzip: <= 8), page sizes 1..4"}}},
	"C13": {Gen: true, Bounded: []boundedCheck{{Name: "history-independence", Run: "TestBoundedC13", Module: true,
		Bound: "the same driver as race-detector without the race detector (which makes sync.Pool drop items at random): instances that follow abandoned ones in the same process must produce the same bytes and records"},
		{Name: "race-detector", Run: "TestBoundedC13", Module: true, Race: true,
		Bound: "24 goroutines (8 per codec) each writing and reading back the same 40-record history concurrently after the pools were dirtied by other workloads and after instances were abandoned half-way (90 readers whose source fails at call k, readers dropped after skipping rows, a writer dropped with records pending), under the Go race detector; outputs compared byte for byte with the sequential run and the records read back with those of the first reader; one scheduler run, not a schedule enumeration"}}},
	"C07": {Bounded: []boundedCheck{{Name: "rle-roundtrip", PkgRel: "internal/rle", File: "replay/rle_bounded_test.go.txt", Run: "TestBoundedC07",
		Bound: "value round trip through an independent specification decoder and the library decoder on foreign legal encodings: every level sequence of length <= 12/6/4/3 for width 1/2/3/4, plus run-structured sequences around the 8-value, 63-group (504/505/512 values) and multi-byte-header (8191..8193 repeats) boundaries; 3 encodings per sequence"}}},
}

var pathSuffix = regexp.MustCompile(`@path\d+$`)

func oblBase(o *Obligation) string {
	return o.Func + " " + pathSuffix.ReplaceAllString(o.Name, "")
}

type checkOpts struct {
	outDir                  string // where evidence/replays go (default: verif)
	prop, tier, repo, verif string
	seed                    int
	quiet                   bool
}

type Violation struct {
	Obligation string
	Replay     string
	NoInput    bool
	Detail     string
}

type CheckResult struct {
	Violations []Violation
	Known      []string
	Evidence   map[string]interface{}
	Exit       int
}

func cmdCheck(args []string) int {
	fs := flag.NewFlagSet("check", flag.ExitOnError)
	tier := fs.String("tier", os.Getenv("VERIF_TIER"), "quick|thorough")
	repo := fs.String("repo", "/repo", "")
	verif := fs.String("verif", "/verif", "")
	out := fs.String("out", "", "directory for evidence/replays (default: the verif dir)")
	var prop string
	if len(args) > 0 && !strings.HasPrefix(args[0], "-") {
		prop = args[0]
		args = args[1:]
	}
	fs.Parse(args)
	if prop == "" && fs.NArg() > 0 {
		prop = fs.Arg(0)
	}
	if *tier == "" {
		*tier = "quick"
	}
	seed, _ := strconv.Atoi(os.Getenv("VERIF_SEED"))
	exit := 2
	func() {
		// an internal error of the verifier while checking a tree must not look like "property holds":
		// it is reported as an undecided check of this property (no failing input), with the stack
		defer func() {
			if rec := recover(); rec != nil {
				dir := *out
				if dir == "" {
					dir = *verif
				}
				rp := filepath.Join(dir, "replays", prop, "internal_error.json")
				os.MkdirAll(filepath.Dir(rp), 0o755)
				b, _ := json.MarshalIndent(map[string]interface{}{"obligation": "govc internal error while generating or discharging the conditions of " + prop, "solver_reason": fmt.Sprint(rec), "stack": string(debug.Stack())}, "", " ")
				os.WriteFile(rp, b, 0o644)
				fmt.Printf("VIOLATION property=%s replay=%s no-failing-input-found\n  obligation: verifier internal error (the conditions of %s could not be decided): %v\n", prop, rp, prop, rec)
				exit = 1
			}
		}()
		r := runCheck(checkOpts{prop: prop, tier: *tier, repo: *repo, verif: *verif, seed: seed, outDir: *out})
		exit = r.Exit
	}()
	return exit
}

func runCheck(o checkOpts) *CheckResult {
	t0 := time.Now()
	res := &CheckResult{}
	cfg, ok := propConfigs[o.prop]
	if !ok {
		fmt.Printf("property %s is not claimed by govc\n", o.prop)
		res.Exit = 2
		return res
	}
	e := newEngine(o.repo)
	if o.tier == "thorough" {
		e.timeout = 60
		e.allSolvers = true
	}
	cleanup, err := e.setup(o.verif, cfg.Gen, "")
	defer cleanup()
	if o.outDir == "" {
		o.outDir = o.verif
	}
	evPath := filepath.Join(o.outDir, "evidence", o.prop+".json")
	replayDir := filepath.Join(o.outDir, "replays", o.prop)
	os.MkdirAll(filepath.Dir(evPath), 0o755)
	os.RemoveAll(replayDir)
	os.MkdirAll(replayDir, 0o755)
	known := loadKnown(o.verif)
	report := func(v Violation) {
		// known finding?
		for _, k := range known {
			if k.Property == o.prop && k.Status == "known" && k.Match == "" && k.Obligation == v.Obligation {
				line := fmt.Sprintf("KNOWN-FINDING: property=%s %s — %s", o.prop, k.Obligation, k.What)
				fmt.Println(line)
				res.Known = append(res.Known, line)
				return
			}
		}
		res.Violations = append(res.Violations, v)
		line := fmt.Sprintf("VIOLATION property=%s replay=%s", o.prop, v.Replay)
		if v.NoInput {
			line += " no-failing-input-found"
		}
		fmt.Println(line)
		fmt.Printf("  obligation: %s\n  %s\n", v.Obligation, strings.ReplaceAll(v.Detail, "\n", "\n  "))
	}
	writeReplay := func(name string, body map[string]interface{}) string {
		p := filepath.Join(replayDir, sanitize(name)+".json")
		b, _ := json.MarshalIndent(body, "", " ")
		os.WriteFile(p, b, 0o644)
		return p
	}
	if err != nil {
		p := writeReplay("setup", map[string]interface{}{"obligation": "setup", "error": err.Error()})
		report(Violation{Obligation: "setup: the repository does not load under the verifier", Replay: p, NoInput: true, Detail: err.Error()})
		res.Exit = 1
		writeEvidence(evPath, o, nil, res, e, time.Since(t0).Seconds(), 0, 0, nil)
		return res
	}
	// select functions
	var keys []string
	for k, fc := range e.db.Funcs {
		if fc.Trusted || fc.NoBody {
			continue
		}
		sel := hasTag(fc.Safety, o.prop)
		for _, c := range fc.Ensures {
			sel = sel || hasTag(c.Tags, o.prop)
		}
		for _, c := range fc.Lemmas {
			sel = sel || hasTag(c.Tags, o.prop)
		}
		for _, l := range fc.Loops {
			for _, c := range l.Invariants {
				sel = sel || hasTag(c.Tags, o.prop)
			}
		}
		for _, c := range fc.Requires {
			sel = sel || hasTag(c.Tags, o.prop)
		}
		sel = sel || hasTag(fc.Verify, o.prop)
		if sel {
			keys = append(keys, k)
		}
	}
	sort.Strings(keys)
	var all []*Obligation
	var results []*FuncResult
	// worklist: tagged functions, then everything their proofs rely on (transitively)
	var work []workItem
	done := map[string]bool{}
	seenSSA := map[string]string{}
	var skipped []string
	var dyn0 *dynResult
	for _, k := range keys {
		fc := e.db.Funcs[k]
		fns := e.funcs[k]
		if len(fns) == 0 {
			p := writeReplay(k+"_missing", map[string]interface{}{"obligation": k + " (function under contract)", "reason": "function under contract no longer exists in the source tree; its obligations cannot be generated"})
			report(Violation{Obligation: k + " missing-function", Replay: p, NoInput: true, Detail: "function under contract not found"})
			continue
		}
		for _, fn := range fns {
			work = append(work, workItem{fn, fc})
		}
	}
	// function-type and interface contracts with a clause of this property: every function that must refine them
	tagged := func(fc *FuncContract) bool {
		for _, c := range append(append([]Clause{}, fc.Ensures...), fc.Requires...) {
			if hasTag(c.Tags, o.prop) {
				return true
			}
		}
		return hasTag(fc.Verify, o.prop)
	}
	var rk []string
	for k, fc := range e.db.FnTypes {
		if tagged(fc) {
			rk = append(rk, "functype\x00"+k)
		}
	}
	for k, fc := range e.db.Ifaces {
		if tagged(fc) && !strings.Contains(k, "io::") && !strings.Contains(k, "builtin::") {
			rk = append(rk, "iface\x00"+k)
		}
	}
	sort.Strings(rk)
	for _, x := range rk {
		kk := strings.SplitN(x, "\x00", 2)
		work = append(work, e.refinementsOf(kk[0], kk[1])...)
	}
	copies := map[string][]workItem{}
	repOf := map[*FuncResult]string{}
	for len(work) > 0 {
		it := work[0]
		work = work[1:]
		id := it.fn.String() + "|" + it.fc.Refines + it.fc.RefOf
		if done[id] {
			continue
		}
		done[id] = true
		if e.normPkgPath(pkgPathOf(it.fn)) == "GEN" {
			// template code is emitted identically for every struct shape: verify one copy
			h := e.canonicalSSA(it.fn) + "|" + it.fc.Refines + it.fc.RefOf
			if os.Getenv("GOVC_DUMP_SSA") != "" && strings.Contains(it.fn.String(), os.Getenv("GOVC_DUMP_SSA")) {
				os.WriteFile("/tmp/ssa_"+sanitize(it.fn.String())+".txt", []byte(h), 0o644)
			}
			if first, dup := seenSSA[h]; dup {
				skipped = append(skipped, fmt.Sprintf("%s: SSA identical to %s (verified there)", it.fn.String(), first))
				copies[first+"|"+it.fc.Refines+it.fc.RefOf] = append(copies[first+"|"+it.fc.Refines+it.fc.RefOf], it)
				continue
			}
			seenSSA[h] = it.fn.String()
		}
		k := it.fc.Key
		r := e.verifyFunction(it.fn, it.fc)
		if it.fc.Refines != "" {
			r.Key = k + " refines " + it.fc.Refines + " " + it.fc.RefOf
		}
		repOf[r] = it.fn.String() + "|" + it.fc.Refines + it.fc.RefOf
		results = append(results, r)
		if r.Err != "" {
			body := map[string]interface{}{"obligation": r.Key + " (all obligations)", "function": r.Fn, "solver_reason": r.Err}
			detail := r.Err
			confirmed := false
			if dyn0 == nil {
				d := e.dynamicReplay(o.prop, o)
				dyn0 = &d
			}
			if dyn0.Ran {
				body["dynamic_replay_cmd"] = dyn0.Cmd
				body["dynamic_replay_confirmed"] = dyn0.Confirmed
				body["dynamic_replay_failing_inputs"] = dyn0.Lines
				if dyn0.Confirmed {
					confirmed = true
					detail += "\nreal code fails: " + strings.Join(dyn0.Lines, "\n                 ")
				} else {
					detail += "\nbounded search on the real code found no failing input"
				}
			}
			p := writeReplay(k+"_error", body)
			report(Violation{Obligation: r.Key + " verification-conditions", Replay: p, NoInput: !confirmed, Detail: detail})
			continue
		}
		for _, ob := range r.Obls {
			if len(ob.Tags) == 0 || hasTag(ob.Tags, o.prop) {
				ob.Func = r.Key
				all = append(all, ob)
			}
		}
		for _, rk := range r.Reached {
			kind, key := rk[:strings.Index(rk, ":")], rk[strings.Index(rk, ":")+1:]
			switch kind {
			case "func":
				fc := e.db.Funcs[key]
				if fc == nil || fc.Trusted || fc.NoBody {
					continue
				}
				for _, fn := range e.funcs[key] {
					// generated code: stay inside the package of the caller
					if e.normPkgPath(pkgPathOf(fn)) == "GEN" && pkgPathOf(fn) != pkgPathOf(it.fn) && e.normPkgPath(pkgPathOf(it.fn)) == "GEN" {
						continue
					}
					work = append(work, workItem{fn, fc})
				}
			case "functype", "iface":
				for _, w := range e.refinementsOf(kind, key) {
					if e.normPkgPath(pkgPathOf(w.fn)) == "GEN" && e.normPkgPath(pkgPathOf(it.fn)) == "GEN" && pkgPathOf(w.fn) != pkgPathOf(it.fn) {
						continue
					}
					work = append(work, w)
				}
			}
		}
	}
	tD := time.Now()
	e.discharge(all)
	// Template code is emitted identically for every struct shape and one copy is verified. An
	// obligation the solvers leave undecided there (no model) is retried on the other copies:
	// the code and the contract are the same, only the surrounding declarations differ, and
	// that alone has turned "unsat" into "unknown". A proof for one copy is a proof for all.
	for _, r := range results {
		cs := copies[repOf[r]]
		if len(cs) == 0 || r.Err != "" {
			continue
		}
		// obligations are matched by position: the copies are SSA-identical, so both lists are
		// generated in the same order (names alone repeat across paths)
		undecided := map[int]bool{}
		for i, ob := range r.Obls {
			if ob.Expect == "unsat" && (len(ob.Tags) == 0 || hasTag(ob.Tags, o.prop)) && !ob.ok() && ob.Res.Status != "sat" {
				undecided[i] = true
			}
		}
		if os.Getenv("GOVC_DEBUG") != "" && len(undecided) > 0 {
			fmt.Fprintf(os.Stderr, "copies: %s has %d undecided obligations, %d identical copies\n", r.Key, len(undecided), len(cs))
		}
		if len(undecided) > 6 {
			// many undecided obligations in one function are a changed function, not solver luck
			continue
		}
		for ci, c := range cs {
			if len(undecided) == 0 || ci >= 2 {
				break
			}
			r2 := e.verifyFunction(c.fn, c.fc)
			if r2.Err != "" || len(r2.Obls) != len(r.Obls) {
				continue
			}
			var again []*Obligation
			var idx []int
			for i := range r.Obls {
				if undecided[i] && r2.Obls[i].Name == r.Obls[i].Name && r2.Obls[i].Expect == "unsat" {
					again = append(again, r2.Obls[i])
					idx = append(idx, i)
				}
			}
			e.dischargeLight(again)
			for k, ob := range again {
				if ob.ok() {
					orig := r.Obls[idx[k]]
					orig.Res = ob.Res
					orig.Res.Solver += " (on the identical copy " + c.fn.String() + ")"
					orig.All = append(orig.All, ob.All...)
					delete(undecided, idx[k])
				}
			}
		}
	}
	if os.Getenv("GOVC_DEBUG") != "" {
		fmt.Fprintf(os.Stderr, "functions=%d obligations=%d generation=%.1fs discharge=%.1fs\n", len(results), len(all), tD.Sub(t0).Seconds(), time.Since(tD).Seconds())
	}
	nObl, nOK := 0, 0
	dyn := dyn0
	// vacuity: a function all of whose return paths are unreachable under its own assumptions
	pathCover := map[string][2]int{}
	for _, ob := range all {
		if ob.Kind == "pathcover" {
			c := pathCover[ob.Func]
			c[0]++
			if ob.Res.Status == "unsat" {
				c[1]++
			}
			pathCover[ob.Func] = c
		}
	}
	for fnk, c := range pathCover {
		if c[0] > 0 && c[0] == c[1] {
			p := writeReplay(fnk+"_vacuous", map[string]interface{}{"obligation": fnk + " cover:paths", "reason": "every return path of the function is unreachable under the assumptions (contradictory contracts): the proof would be vacuous"})
			report(Violation{Obligation: fnk + " cover:paths", Replay: p, NoInput: true, Detail: "vacuous proof: no return path is reachable under the contracts' assumptions"})
		}
	}
	for _, ob := range all {
		if ob.Kind == "pathcover" {
			continue
		}
		if ob.Kind == "cover" {
			if !ob.ok() {
				p := writeReplay(ob.Func+"_"+ob.Name, map[string]interface{}{"obligation": oblBase(ob), "reason": "vacuous contract: preconditions are unsatisfiable", "solver": ob.Res.Solver})
				report(Violation{Obligation: oblBase(ob), Replay: p, NoInput: true, Detail: "vacuous contract"})
			}
			continue
		}
		nObl++
		if ob.ok() {
			nOK++
			continue
		}
		rp := e.replay(ob, o)
		if !rp.Confirmed {
			// bounded search for a concrete failing input on the real code (once per run)
			if dyn == nil {
				d := e.dynamicReplay(o.prop, o)
				dyn = &d
			}
			if dyn.Ran {
				rp.Body["dynamic_replay_cmd"] = dyn.Cmd
				rp.Body["dynamic_replay_confirmed"] = dyn.Confirmed
				rp.Body["dynamic_replay_failing_inputs"] = dyn.Lines
				if !dyn.Confirmed {
					rp.Body["dynamic_replay_output"] = dyn.Output
				}
				if dyn.Confirmed {
					rp.Confirmed = true
					rp.Summary += "\nreal code fails: " + strings.Join(dyn.Lines, "\n                 ")
				} else {
					rp.Summary += "\nbounded search on the real code found no failing input"
				}
			}
		}
		p := writeReplay(ob.Func+"_"+ob.Name, rp.Body)
		report(Violation{Obligation: oblBase(ob), Replay: p, NoInput: !rp.Confirmed, Detail: rp.Summary})
	}
	// bounded stand-ins
	var boundedEv []string
	for _, bc := range cfg.Bounded {
		var src []byte
		var out string
		var err error
		if bc.Module {
			d := e.runDynTest(bc.Run, bc.Race, o)
			out = d.Full
			if out == "" {
				out = d.Output
			}
			if d.Confirmed || !strings.Contains(out, "ok  \treplay") {
				err = fmt.Errorf("failed")
			}
		} else {
			src, err = os.ReadFile(filepath.Join(o.verif, bc.File))
			if err != nil {
				boundedEv = append(boundedEv, bc.Name+": driver missing: "+err.Error())
				continue
			}
			out, err = runOverlayTestV(o.repo, bc.PkgRel, string(src), bc.Run)
		}
		cases := ""
		for _, l := range strings.Split(out, "\n") {
			if i := strings.Index(l, "BOUNDED-"); i >= 0 {
				cases = strings.TrimSpace(l[i:])
			}
		}
		if err != nil {
			var fails []string
			knownHit := map[int]int{}
			for _, l := range strings.Split(out, "\n") {
				i := strings.Index(l, "REPLAY-FAIL")
				if i < 0 {
					continue
				}
				// failing inputs of a listed (unrepaired) finding are reported as such, not as a violation
				isKnown := false
				for ki, k := range known {
					if k.Property == o.prop && k.Status == "known" && k.Obligation == "bounded:"+bc.Name && k.Match != "" && strings.Contains(l, k.Match) {
						knownHit[ki]++
						isKnown = true
					}
				}
				if !isKnown && len(fails) < 5 {
					fails = append(fails, strings.TrimSpace(l[i:]))
				}
			}
			if len(knownHit) > 0 {
				var kis []int
				for ki := range knownHit {
					kis = append(kis, ki)
				}
				sort.Ints(kis)
				for _, ki := range kis {
					n := knownHit[ki]
					line := fmt.Sprintf("KNOWN-FINDING: property=%s bounded:%s %s (%d failing inputs in this run) — %s", o.prop, bc.Name, known[ki].Match, n, known[ki].What)
					fmt.Println(line)
					res.Known = append(res.Known, line)
				}
				// nothing else failed: the packages without a listed finding report ok, no other failing input
				if len(fails) == 0 && !strings.Contains(out, "panic: ") && !strings.Contains(out, "[build failed]") && !strings.Contains(out, "[setup failed]") && onlyKnownPkgsFail(out, known, o.prop, "bounded:"+bc.Name) {
					boundedEv = append(boundedEv, fmt.Sprintf("%s: passed apart from the listed known finding(s); bound: %s", bc.Name, bc.Bound))
					continue
				}
			}
			p := writeReplay("bounded_"+bc.Name, map[string]interface{}{"obligation": "bounded:" + bc.Name, "bound": bc.Bound, "failing_inputs": fails, "output": truncate(out, 4000), "replay_test": string(src), "replay_pkg": bc.PkgRel, "repo": o.repo})
			report(Violation{Obligation: "bounded:" + bc.Name, Replay: p, NoInput: len(fails) == 0, Detail: "bounded check failed on the real code: " + strings.Join(fails, "\n  ")})
			boundedEv = append(boundedEv, fmt.Sprintf("%s: FAILED (%s)", bc.Name, bc.Bound))
		} else {
			boundedEv = append(boundedEv, fmt.Sprintf("%s: passed, %s; bound: %s", bc.Name, cases, bc.Bound))
		}
	}
	e.boundedEv = boundedEv
	if nObl == 0 {
		p := writeReplay("vacuity", map[string]interface{}{"obligation": "obligation-count", "reason": "no obligations were generated for this property"})
		report(Violation{Obligation: "obligation-count", Replay: p, NoInput: true, Detail: "zero obligations"})
	}
	if len(res.Violations) > 0 {
		res.Exit = 1
	}
	e.skipped = skipped
	writeEvidence(evPath, o, results, res, e, time.Since(t0).Seconds(), nObl, nOK, all)
	if res.Exit == 0 {
		fmt.Printf("property %s: %d/%d obligations discharged over %d functions (%.1fs)\n", o.prop, nOK, nObl, len(results), time.Since(t0).Seconds())
	}
	return res
}

func loadKnown(verif string) []KnownFinding {
	var k []KnownFinding
	b, err := os.ReadFile(filepath.Join(verif, "known_findings.json"))
	if err != nil {
		return nil
	}
	json.Unmarshal(b, &k)
	return k
}

func writeEvidence(path string, o checkOpts, results []*FuncResult, res *CheckResult, e *Engine, wall float64, nObl, nOK int, all []*Obligation) {
	backends := map[string]int{}
	solverSecs := 0.0
	var samples []interface{}
	kinds := map[string]int{}
	maxBytes := 0
	slowest := 0.0
	for _, ob := range all {
		if ob.Kind == "pathcover" {
			continue
		}
		if ob.Kind == "cover" {
			continue
		}
		backends[ob.Res.Solver]++
		solverSecs += ob.Res.Secs
		kinds[ob.Kind]++
		if ob.Bytes > maxBytes {
			maxBytes = ob.Bytes
		}
		if ob.Res.Secs > slowest {
			slowest = ob.Res.Secs
		}
		if os.Getenv("GOVC_SLOW") != "" && ob.Res.Secs > 1.5 {
			fmt.Printf("slow %.1fs %s %s [%s] %dB\n", ob.Res.Secs, shortKey(ob.Func), ob.Name, ob.Res.Solver, ob.Bytes)
		}
	}
	step := 1
	if len(all) > 6 {
		step = len(all) / 6
	}
	for i := 0; i < len(all); i += step {
		ob := all[i]
		samples = append(samples, map[string]interface{}{"function": ob.Func, "obligation": ob.Name, "kind": ob.Kind, "clause": ob.Src,
			"status": ob.Res.Status, "backend": ob.Res.Solver, "secs": round3(ob.Res.Secs), "smt_bytes": ob.Bytes})
	}
	if len(samples) == 0 {
		samples = append(samples, "no obligations generated")
	}
	var funcs []interface{}
	trusted := map[string]bool{}
	assumptions := map[string]bool{}
	for _, r := range results {
		n, ok := 0, 0
		for _, ob := range r.Obls {
			if ob.Kind == "cover" || ob.Kind == "pathcover" || !(len(ob.Tags) == 0 || hasTag(ob.Tags, o.prop)) {
				continue
			}
			n++
			if ob.ok() {
				ok++
			}
		}
		mode := "int"
		if fc := e.db.Funcs[r.Key]; fc != nil {
			mode = fc.Mode
		}
		funcs = append(funcs, map[string]interface{}{"contract": r.Key, "function": r.Fn, "paths": r.Paths, "obligations": n, "discharged": ok, "arithmetic": mode, "error": r.Err})
		for _, t := range r.Trusted {
			trusted[t] = true
		}
		for _, a := range r.Assumptions {
			assumptions[a] = true
		}
	}
	tb := []string{"govc VC generator (SSA semantics, heap model, arithmetic translation) — /verif/govc", "SMT solvers z3 4.8.12, z3 5.1.0, cvc5 1.0.3", "go/ssa (golang.org/x/tools v0.29.0) lowering of the source"}
	for t := range trusted {
		tb = append(tb, "assumed contract: "+t)
	}
	sort.Strings(tb[3:])
	var as []string
	for a := range assumptions {
		as = append(as, a)
	}
	for n := range e.notes {
		as = append(as, "note: "+n)
	}
	for caller, m := range e.inlines {
		for callee := range m {
			as = append(as, fmt.Sprintf("callee %s has no contract and was inlined into %s", callee, caller))
		}
	}
	for fn, n := range e.boxes {
		as = append(as, fmt.Sprintf("%d interior pointer(s) passed by copy-in/copy-out (no aliasing with the container assumed) in %s", n, fn))
	}
	sort.Strings(as)
	if as == nil {
		as = []string{}
	}
	cov := map[string]interface{}{
		"obligations":              nObl,
		"discharged":               nOK,
		"checker_cmd":              fmt.Sprintf("/verif/bin/govc check %s --tier %s", o.prop, o.tier),
		"trusted_base":             tb,
		"samples":                  samples,
		"functions_under_contract": funcs,
		"backends":                 backends,
		"solver_seconds":           round3(solverSecs),
		"slowest_obligation_s":     round3(slowest),
		"largest_vc_bytes":         maxBytes,
		"obligation_kinds":         kinds,
		"known_findings_reported":  res.Known,
		"bounded":                  boundedOrEmpty(e.boundedEv),
		"identical_copies_skipped": e.skipped,
		"explanation":              "contract-based deductive verification: verification conditions generated from go/ssa of the working tree, one SMT query per obligation",
	}
	level := "proof"
	if nObl == 0 || nOK == 0 {
		// keep the file schema-valid even when nothing could be generated
		level = "other"
	}
	ev := map[string]interface{}{
		"property_id": o.prop, "tier": o.tier, "seed": o.seed, "level": level, "coverage": cov,
		"assumptions": as, "wall_s": round3(wall), "violations": len(res.Violations),
	}
	b, _ := json.MarshalIndent(ev, "", " ")
	os.WriteFile(path, b, 0o644)
}

func round3(f float64) float64 { return float64(int(f*1000+0.5)) / 1000 }

func pkgPathOf(fn *ssa.Function) string {
	for fn != nil && fn.Pkg == nil {
		fn = fn.Parent()
	}
	if fn == nil || fn.Pkg == nil {
		return ""
	}
	return fn.Pkg.Pkg.Path()
}

func boundedOrEmpty(b []string) []string {
	if b == nil {
		return []string{}
	}
	return b
}

// onlyKnownPkgsFail: every "--- FAIL" test of the output has at least one failing-input line and all of
// them belong to listed findings (checked by the caller); additionally no package failed without any
// REPLAY-FAIL line (a crash or a timeout must not hide behind a known finding).
func onlyKnownPkgsFail(out string, known []KnownFinding, prop, obl string) bool {
	pkgFail := 0
	for _, l := range strings.Split(out, "\n") {
		if strings.HasPrefix(l, "FAIL\t") {
			pkgFail++
		}
	}
	lines := 0
	for _, l := range strings.Split(out, "\n") {
		if strings.Contains(l, "REPLAY-FAIL") {
			lines++
		}
	}
	return pkgFail >= 1 && lines >= 1 && !strings.Contains(out, "timed out")
}
