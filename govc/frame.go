package main

// Frames (modifies clauses as obligations), loop havoc restricted to the frame,
// dynamic dispatch resolution for interface calls.

import (
	"bytes"
	"context"
	"fmt"
	"go/types"
	"os"
	"os/exec"
	"path/filepath"
	"sort"
	"strings"
	"time"

	"golang.org/x/tools/go/ssa"
)

type frameSet struct {
	heaps      map[string]bool // whole heaps (by key) that may be modified
	allHeaps   bool            // every typed heap (but no ghost global unless listed)
	except     map[string]bool // with allHeaps: heaps that are nevertheless preserved
	everything bool
	refs       []string        // object refs (entry-state terms) that may be modified, any heap
	ghost      map[string]bool // ghost globals
}

// computeFrame evaluates the modifies clause of the function under verification at entry.
func (fv *FV) computeFrame(st *State, env *Env) {
	fs := &frameSet{ghost: map[string]bool{}, heaps: map[string]bool{}, except: map[string]bool{}}
	fv.frame = fs
	if !fv.fc.HasMod {
		fs.everything = true
		return
	}
	for _, m := range fv.fc.Modifies {
		switch {
		case m.Op == "id" && m.Name == "everything":
			fs.everything = true
		case m.Op == "id" && m.Name == "allheaps":
			fs.allHeaps = true
		case m.Op == "id" && m.Name == "callerfresh":
			// nothing that existed at entry
		case m.Op == "call" && m.Name == "allexcept":
			fs.allHeaps = true
			for _, a := range m.Args {
				for _, k := range fv.heapKeysOfTypeName(a.Name) {
					fs.except[k] = true
				}
			}
		case m.Op == "call" && m.Name == "anyobj":
			fs.heaps["iface:"+m.Args[0].Name] = true
			for _, k := range fv.implementorHeaps(m.Args[0].Name) {
				fs.heaps[k] = true
			}
		case m.Op == "id" && fv.u.db.GGlobal[m.Name] != "":
			fs.ghost[m.Name] = true
		case m.Op == "call" && m.Name == "heap":
			for _, k := range fv.heapKeysOfTypeName(m.Args[0].Name) {
				fs.heaps[k] = true
			}
		case m.Op == "call" && m.Name == "HA":
			s := fv.evalSpec(m.Args[0], env)
			fs.refs = append(fs.refs, fv.define(st, "fr", "Int", fmt.Sprintf("(sref %s)", s.T)))
		case m.Op == "call" && m.Name == "mapOf":
			mv := fv.evalSpec(m.Args[0], env)
			fs.refs = append(fs.refs, mv.T)
		case m.Op == "call" && m.Name == "obj":
			// obj(x): the object behind an interface value
			v := fv.evalSpec(m.Args[0], env)
			fs.refs = append(fs.refs, fv.define(st, "fr", "Int", fmt.Sprintf("(ival %s)", v.T)))
		case m.Op == "field" && m.Name == "*":
			b := fv.asTermSpec(env, fv.evalSpec(m.Args[0], env))
			fs.refs = append(fs.refs, b.T)
		default:
			v := fv.asTermSpec(env, fv.evalSpec(m, env))
			if v.S == "Iface" {
				fs.refs = append(fs.refs, fv.define(st, "fr", "Int", fmt.Sprintf("(ival %s)", v.T)))
			} else if v.S == "Int" {
				fs.refs = append(fs.refs, v.T)
			} else {
				fv.specErr("modifies: unsupported target %s", m)
			}
		}
	}
}

func (fv *FV) inFrame(ref string) string {
	fs := fv.frame
	if fs == nil || fs.everything {
		return "true"
	}
	parts := []string{fmt.Sprintf("(> %s alloc!entry)", ref), fmt.Sprintf("(= %s 0)", ref)}
	for _, r := range fs.refs {
		parts = append(parts, fmt.Sprintf("(= %s %s)", ref, r))
	}
	return "(or " + strings.Join(parts, " ") + ")"
}

// touch records a write to object ref; under a modifies clause this is an obligation.
func (fv *FV) touch(st *State, key, ref, what string) { fv.touchUnless(st, key, ref, what, "") }

func (fv *FV) heapKeyOfTypeName(name string) string {
	return fv.heapKeysOfTypeName(name)[0]
}

// parseTypeName resolves a small type syntax: pkg.T, *T, []T, map[K]V, basic types.
func (fv *FV) parseTypeName(name string) types.Type {
	name = strings.TrimSpace(name)
	switch {
	case strings.HasPrefix(name, "*"):
		return types.NewPointer(fv.parseTypeName(name[1:]))
	case strings.HasPrefix(name, "[]"):
		return types.NewSlice(fv.parseTypeName(name[2:]))
	case strings.HasPrefix(name, "map["):
		i := strings.Index(name, "]")
		return types.NewMap(fv.parseTypeName(name[4:i]), fv.parseTypeName(name[i+1:]))
	}
	for _, b := range types.Typ {
		if b.Name() == name {
			return b
		}
	}
	if strings.HasPrefix(name, "GEN.") && fv.fn.Pkg != nil {
		name = fv.fn.Pkg.Pkg.Name() + name[3:]
	}
	t, ok := fv.eng.typeNames[name]
	if !ok {
		fv.specErr("unknown type %q", name)
	}
	return t
}

// heapKeysOfTypeName: heap("T") names the heap holding objects of type T; for
// a map type both the value and the domain heaps.
func (fv *FV) heapKeysOfTypeName(name string) []string {
	if strings.HasPrefix(name, "impl:") {
		// impl:GEN.Field — the struct types whose pointer implements the interface
		return fv.implementorHeaps(name[5:])
	}
	t := fv.parseTypeName(name)
	switch x := t.Underlying().(type) {
	case *types.Map:
		ks, vs := fv.u.sortOf(x.Key(), fv.bv), fv.u.sortOf(x.Elem(), fv.bv)
		return []string{"(Array " + ks + " " + vs + ")", "(Array " + ks + " Bool)"}
	case *types.Slice:
		return []string{"(Array Int " + fv.u.sortOf(x.Elem(), fv.bv) + ")"}
	}
	return []string{fv.u.sortOf(t, fv.bv)}
}

// touchUnless: the write happens only when skip is false.
func (fv *FV) touchUnless(st *State, key, ref, what, skip string) {
	fs := fv.frame
	if fs == nil || fs.everything || (fs.allHeaps && !fs.except[key]) || (key != "" && fs.heaps[key]) {
		return
	}
	g := fv.inFrame(ref)
	if skip != "" {
		g = fmt.Sprintf("(or %s %s)", skip, g)
	}
	fv.nTouch++
	fv.addObl(st, "frame", fmt.Sprintf("frame:%s#%d@%s", what, fv.nTouch, st.fr.fn.Name()), g, "write stays inside the modifies clause", nil)
}

func (fv *FV) touchGhost(st *State, name, what string) {
	fs := fv.frame
	if fs == nil || fs.everything || fs.ghost[name] {
		return
	}
	fv.nTouch++
	fv.addObl(st, "frame", fmt.Sprintf("frame:ghost-%s:%s#%d@%s", name, what, fv.nTouch, st.fr.fn.Name()), "false", "ghost global "+name+" is not in the modifies clause", nil)
}

func (fv *FV) touchAllHeaps(st *State, what string, except map[string]bool) {
	fs := fv.frame
	if fs == nil || fs.everything {
		return
	}
	if fs.allHeaps {
		ok := true
		for k := range fs.except {
			if !except[k] {
				ok = false
			}
		}
		if ok {
			return
		}
	}
	fv.nTouch++
	fv.addObl(st, "frame", fmt.Sprintf("frame:allheaps:%s#%d@%s", what, fv.nTouch, st.fr.fn.Name()), "false", "callee may modify any heap object; the caller's modifies clause is narrower", nil)
}

func (fv *FV) touchEverything(st *State, what string) {
	fs := fv.frame
	if fs == nil || fs.everything {
		return
	}
	fv.nTouch++
	fv.addObl(st, "frame", fmt.Sprintf("frame:unbounded:%s#%d@%s", what, fv.nTouch, st.fr.fn.Name()), "false", "callee without modifies clause called from a function with one", nil)
}

// havocLoopHeaps havocs the given heaps at a loop header but keeps, for a
// function with a modifies clause, everything outside the frame that existed
// at function entry.
func (fv *FV) havocLoopHeaps(st *State, keys []string, blocks map[*ssa.BasicBlock]bool) {
	sort.Strings(keys)
	for _, k := range keys {
		old, had := st.heaps[k]
		if !had {
			old = fv.heap(st, k)
		}
		n := fv.havocHeap(st, k)
		// locals that stay private to straight-line addressing keep their content
		for _, a := range st.fr.allocs {
			if a.sort == k && privateInLoop(a.instr, blocks) {
				st.assume(fmt.Sprintf("(= (select %s %s) (select %s %s))", n, a.ref, old, a.ref))
			}
		}
		fs := fv.frame
		if fs != nil && !fs.everything && !(fs.allHeaps && !fs.except[k]) && !fs.heaps[k] {
			var ex []string
			for _, r := range fs.refs {
				ex = append(ex, fmt.Sprintf("(not (= r %s))", r))
			}
			cond := "(<= r alloc!entry)"
			if len(ex) > 0 {
				cond = "(and (<= r alloc!entry) " + strings.Join(ex, " ") + ")"
			}
			st.assume(fmt.Sprintf("(forall ((r Int)) (! (=> %s (= (select %s r) (select %s r))) :pattern ((select %s r))))", cond, n, old, n))
		}
	}
}

// ---- dynamic dispatch

// implementors of an interface among in-scope and well-known types
func (e *Engine) implementors(iface *types.Interface) []types.Type {
	var out []types.Type
	seen := map[string]bool{}
	for _, p := range e.prog.AllPackages() {
		path := p.Pkg.Path()
		if !(e.scopePkgs[path] || path == "bytes" || path == "github.com/valyala/bytebufferpool") {
			continue
		}
		for _, m := range p.Members {
			t, ok := m.(*ssa.Type)
			if !ok {
				continue
			}
			if _, isIface := t.Type().Underlying().(*types.Interface); isIface {
				continue
			}
			for _, cand := range []types.Type{t.Type(), types.NewPointer(t.Type())} {
				if types.Implements(cand, iface) && !seen[cand.String()] {
					seen[cand.String()] = true
					out = append(out, cand)
				}
			}
		}
	}
	sort.Slice(out, func(i, j int) bool { return out[i].String() < out[j].String() })
	return out
}

// quickEntails: does the path condition entail f? (unsat of pc && !f, E-matching only)
func (fv *FV) quickEntails(st *State, f string) bool {
	o := &Obligation{Hyps: st.pc, Goal: f, Expect: "unsat"}
	pre := fv.u.prelude(nil, fv.u.db, nil)
	txt := buildSMT(pre, strings.Join(fv.decls, "\n"), o)
	fv.eng.mu.Lock()
	fv.nQuick++
	n := fv.nQuick
	fv.eng.mu.Unlock()
	f2 := filepath.Join(fv.eng.tmp, fmt.Sprintf("quick_%s_%d.smt2", sanitize(shortKey(fv.fc.Key)), n))
	os.WriteFile(f2, []byte(txt), 0o644)
	ctx, cancel := context.WithTimeout(context.Background(), 6*time.Second)
	defer cancel()
	cmd := exec.CommandContext(ctx, "z3-new", "-T:4", f2)
	var ob bytes.Buffer
	cmd.Stdout = &ob
	cmd.Run()
	return classify(ob.String()) == "unsat"
}

// resolveDyn decides, from the path condition, the dynamic type behind an
// interface value: a concrete in-scope method, "external" (none of the
// in-scope implementors), or unknown.
func (fv *FV) resolveDyn(st *State, recv Val, m *types.Func) (target *ssa.Function, recvType types.Type, external bool) {
	iface, ok := recv.Typ.Underlying().(*types.Interface)
	if !ok {
		return nil, nil, false
	}
	cands := fv.eng.implementors(iface)
	if len(cands) == 0 {
		return nil, nil, true
	}
	ityp := fmt.Sprintf("(ityp %s)", recv.T)
	var ids []string
	for _, c := range cands {
		ids = append(ids, fmt.Sprintf("(not (= %s %d))", ityp, fv.u.typeID(c)))
	}
	res := make([]bool, len(cands)+1)
	done := make(chan int, len(cands)+2)
	infeasible := false
	go func() {
		infeasible = fv.quickEntails(st, "false")
		done <- -1
	}()
	for i := range cands {
		go func(i int) {
			res[i] = fv.quickEntails(st, fmt.Sprintf("(= %s %d)", ityp, fv.u.typeID(cands[i])))
			done <- i
		}(i)
	}
	go func() {
		res[len(cands)] = fv.quickEntails(st, fmt.Sprintf("(not (lib_type %s))", ityp))
		done <- len(cands)
	}()
	for i := 0; i <= len(cands)+1; i++ {
		<-done
	}
	if infeasible {
		panic(infeasiblePath{})
	}
	if os.Getenv("GOVC_DEBUG") != "" {
		fmt.Fprintf(os.Stderr, "resolveDyn %s in %s: %v\n", m.Name(), fv.fc.Key, res)
	}
	ntrue := 0
	for _, r := range res[:len(cands)] {
		if r {
			ntrue++
		}
	}
	if ntrue > 1 {
		// contradictory path condition: this path is infeasible
		panic(infeasiblePath{})
	}
	for i, c := range cands {
		if res[i] {
			ms := fv.prog.MethodSets.MethodSet(c)
			sel := ms.Lookup(m.Pkg(), m.Name())
			if sel != nil {
				if fn := fv.prog.MethodValue(sel); fn != nil {
					return fn, c, false
				}
			}
		}
	}
	if res[len(cands)] {
		return nil, nil, true
	}
	return nil, nil, false
}

// havocGhostInFrame havocs the ghost globals a loop containing calls may change.
func (fv *FV) havocGhostInFrame(st *State) {
	names := make([]string, 0)
	for n := range fv.u.db.GGlobal {
		if fv.frame == nil || fv.frame.everything || fv.frame.ghost[n] {
			names = append(names, n)
		}
	}
	sort.Strings(names)
	for _, n := range names {
		s := fv.u.db.GGlobal[n]
		st.ghost[n] = Val{T: fv.fresh("gg_"+n, s), S: s}
		fv.natGhost(st, n)
	}
}

// implementorHeaps: heap keys of the struct types whose pointer implements the named interface.
func (fv *FV) implementorHeaps(name string) []string {
	t := fv.parseTypeName(name)
	iface, ok := t.Underlying().(*types.Interface)
	if !ok {
		fv.specErr("anyobj(%q): not an interface", name)
	}
	var out []string
	for _, c := range fv.eng.implementors(iface) {
		if p, ok := c.(*types.Pointer); ok {
			if fv.fn.Pkg != nil {
				if n, ok := p.Elem().(*types.Named); ok && n.Obj().Pkg() != nil && fv.eng.normPkgPath(n.Obj().Pkg().Path()) == "GEN" && n.Obj().Pkg() != fv.fn.Pkg.Pkg {
					continue
				}
			}
			out = append(out, fv.u.sortOf(p.Elem(), fv.bv))
		}
	}
	return out
}

type infeasiblePath struct{}
