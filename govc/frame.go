package main

// Frames (modifies clauses as obligations), loop havoc restricted to the frame,
// dynamic dispatch resolution for interface calls.

import (
	"bytes"
	"context"
	"fmt"
	"go/types"
	"os"
	"os/exec"
	"path/filepath"
	"sort"
	"strings"
	"time"

	"golang.org/x/tools/go/ssa"
)

type frameSet struct {
	heaps      map[string]bool // whole heaps (by key) that may be modified
	everything bool
	refs       []string        // object refs (entry-state terms) that may be modified, any heap
	ghost      map[string]bool // ghost globals
}

// computeFrame evaluates the modifies clause of the function under verification at entry.
func (fv *FV) computeFrame(st *State, env *Env) {
	fs := &frameSet{ghost: map[string]bool{}, heaps: map[string]bool{}}
	fv.frame = fs
	if !fv.fc.HasMod {
		fs.everything = true
		return
	}
	for _, m := range fv.fc.Modifies {
		switch {
		case m.Op == "id" && m.Name == "everything":
			fs.everything = true
		case m.Op == "id" && fv.u.db.GGlobal[m.Name] != "":
			fs.ghost[m.Name] = true
		case m.Op == "call" && m.Name == "heap":
			for _, k := range fv.heapKeysOfTypeName(m.Args[0].Name) {
				fs.heaps[k] = true
			}
		case m.Op == "call" && m.Name == "HA":
			s := fv.evalSpec(m.Args[0], env)
			fs.refs = append(fs.refs, fv.define(st, "fr", "Int", fmt.Sprintf("(sref %s)", s.T)))
		case m.Op == "call" && m.Name == "mapOf":
			mv := fv.evalSpec(m.Args[0], env)
			fs.refs = append(fs.refs, mv.T)
		case m.Op == "call" && m.Name == "obj":
			// obj(x): the object behind an interface value
			v := fv.evalSpec(m.Args[0], env)
			fs.refs = append(fs.refs, fv.define(st, "fr", "Int", fmt.Sprintf("(ival %s)", v.T)))
		case m.Op == "field" && m.Name == "*":
			b := fv.asTermSpec(env, fv.evalSpec(m.Args[0], env))
			fs.refs = append(fs.refs, b.T)
		default:
			v := fv.asTermSpec(env, fv.evalSpec(m, env))
			if v.S == "Iface" {
				fs.refs = append(fs.refs, fv.define(st, "fr", "Int", fmt.Sprintf("(ival %s)", v.T)))
			} else if v.S == "Int" {
				fs.refs = append(fs.refs, v.T)
			} else {
				fv.specErr("modifies: unsupported target %s", m)
			}
		}
	}
}

func (fv *FV) inFrame(ref string) string {
	fs := fv.frame
	if fs == nil || fs.everything {
		return "true"
	}
	parts := []string{fmt.Sprintf("(> %s alloc!entry)", ref), fmt.Sprintf("(= %s 0)", ref)}
	for _, r := range fs.refs {
		parts = append(parts, fmt.Sprintf("(= %s %s)", ref, r))
	}
	return "(or " + strings.Join(parts, " ") + ")"
}

// touch records a write to object ref; under a modifies clause this is an obligation.
func (fv *FV) touch(st *State, key, ref, what string) { fv.touchUnless(st, key, ref, what, "") }

func (fv *FV) heapKeyOfTypeName(name string) string {
	return fv.heapKeysOfTypeName(name)[0]
}

// parseTypeName resolves a small type syntax: pkg.T, *T, []T, map[K]V, basic types.
func (fv *FV) parseTypeName(name string) types.Type {
	name = strings.TrimSpace(name)
	switch {
	case strings.HasPrefix(name, "*"):
		return types.NewPointer(fv.parseTypeName(name[1:]))
	case strings.HasPrefix(name, "[]"):
		return types.NewSlice(fv.parseTypeName(name[2:]))
	case strings.HasPrefix(name, "map["):
		i := strings.Index(name, "]")
		return types.NewMap(fv.parseTypeName(name[4:i]), fv.parseTypeName(name[i+1:]))
	}
	for _, b := range types.Typ {
		if b.Name() == name {
			return b
		}
	}
	if strings.HasPrefix(name, "GEN.") && fv.fn.Pkg != nil {
		name = fv.fn.Pkg.Pkg.Name() + name[3:]
	}
	t, ok := fv.eng.typeNames[name]
	if !ok {
		fv.specErr("unknown type %q", name)
	}
	return t
}

// heapKeysOfTypeName: heap("T") names the heap holding objects of type T; for
// a map type both the value and the domain heaps.
func (fv *FV) heapKeysOfTypeName(name string) []string {
	t := fv.parseTypeName(name)
	switch x := t.Underlying().(type) {
	case *types.Map:
		ks, vs := fv.u.sortOf(x.Key(), fv.bv), fv.u.sortOf(x.Elem(), fv.bv)
		return []string{"(Array " + ks + " " + vs + ")", "(Array " + ks + " Bool)"}
	case *types.Slice:
		return []string{"(Array Int " + fv.u.sortOf(x.Elem(), fv.bv) + ")"}
	}
	return []string{fv.u.sortOf(t, fv.bv)}
}

// touchUnless: the write happens only when skip is false.
func (fv *FV) touchUnless(st *State, key, ref, what, skip string) {
	fs := fv.frame
	if fs == nil || fs.everything || (key != "" && fs.heaps[key]) {
		return
	}
	g := fv.inFrame(ref)
	if skip != "" {
		g = fmt.Sprintf("(or %s %s)", skip, g)
	}
	fv.nTouch++
	fv.addObl(st, "frame", fmt.Sprintf("frame:%s#%d@%s", what, fv.nTouch, st.fr.fn.Name()), g, "write stays inside the modifies clause", nil)
}

func (fv *FV) touchGhost(st *State, name, what string) {
	fs := fv.frame
	if fs == nil || fs.everything || fs.ghost[name] {
		return
	}
	fv.nTouch++
	fv.addObl(st, "frame", fmt.Sprintf("frame:ghost-%s:%s#%d@%s", name, what, fv.nTouch, st.fr.fn.Name()), "false", "ghost global "+name+" is not in the modifies clause", nil)
}

func (fv *FV) touchEverything(st *State, what string) {
	fs := fv.frame
	if fs == nil || fs.everything {
		return
	}
	fv.nTouch++
	fv.addObl(st, "frame", fmt.Sprintf("frame:unbounded:%s#%d@%s", what, fv.nTouch, st.fr.fn.Name()), "false", "callee without modifies clause called from a function with one", nil)
}

// havocLoopHeaps havocs the given heaps at a loop header but keeps, for a
// function with a modifies clause, everything outside the frame that existed
// at function entry.
func (fv *FV) havocLoopHeaps(st *State, keys []string) {
	sort.Strings(keys)
	for _, k := range keys {
		old, had := st.heaps[k]
		if !had {
			old = fv.heap(st, k)
		}
		n := fv.havocHeap(st, k)
		fs := fv.frame
		if fs != nil && !fs.everything && !fs.heaps[k] {
			var ex []string
			for _, r := range fs.refs {
				ex = append(ex, fmt.Sprintf("(not (= r %s))", r))
			}
			cond := "(<= r alloc!entry)"
			if len(ex) > 0 {
				cond = "(and (<= r alloc!entry) " + strings.Join(ex, " ") + ")"
			}
			st.assume(fmt.Sprintf("(forall ((r Int)) (! (=> %s (= (select %s r) (select %s r))) :pattern ((select %s r))))", cond, n, old, n))
		}
	}
}

// ---- dynamic dispatch

// implementors of an interface among in-scope and well-known types
func (e *Engine) implementors(iface *types.Interface) []types.Type {
	var out []types.Type
	seen := map[string]bool{}
	for _, p := range e.prog.AllPackages() {
		path := p.Pkg.Path()
		if !(e.scopePkgs[path] || path == "bytes" || path == "github.com/valyala/bytebufferpool") {
			continue
		}
		for _, m := range p.Members {
			t, ok := m.(*ssa.Type)
			if !ok {
				continue
			}
			if _, isIface := t.Type().Underlying().(*types.Interface); isIface {
				continue
			}
			for _, cand := range []types.Type{t.Type(), types.NewPointer(t.Type())} {
				if types.Implements(cand, iface) && !seen[cand.String()] {
					seen[cand.String()] = true
					out = append(out, cand)
				}
			}
		}
	}
	sort.Slice(out, func(i, j int) bool { return out[i].String() < out[j].String() })
	return out
}

// quickSolve runs z3-new synchronously on the current path condition plus extra assertions.
func (fv *FV) quickSolve(st *State, extra string, getValue string) (status string, value string) {
	var b strings.Builder
	o := &Obligation{Hyps: st.pc, Goal: "true", Expect: "sat"}
	pre := fv.u.prelude(nil, fv.u.db, nil)
	txt := buildSMT(pre, strings.Join(fv.decls, "\n"), o)
	txt = strings.Replace(txt, "(assert (not true))\n(check-sat)\n", "", 1)
	txt = strings.Replace(txt, "(set-option :smt.mbqi false)\n(set-option :auto_config false)\n", "", 1)
	b.WriteString(txt)
	if extra != "" {
		b.WriteString("(assert " + extra + ")\n")
	}
	b.WriteString("(check-sat)\n")
	if getValue != "" {
		b.WriteString("(get-value (" + getValue + "))\n")
	}
	fv.nQuick++
	f := filepath.Join(fv.eng.tmp, fmt.Sprintf("quick_%s_%d.smt2", sanitize(shortKey(fv.fc.Key)), fv.nQuick))
	os.WriteFile(f, []byte(b.String()), 0o644)
	ctx, cancel := context.WithTimeout(context.Background(), 8*time.Second)
	defer cancel()
	cmd := exec.CommandContext(ctx, "z3-new", "-T:5", f)
	var ob bytes.Buffer
	cmd.Stdout = &ob
	cmd.Run()
	lines := strings.SplitN(ob.String(), "\n", 2)
	status = strings.TrimSpace(lines[0])
	if len(lines) > 1 && status == "sat" {
		value = lastSexpElem(strings.TrimSpace(lines[1]))
	}
	return
}

// resolveDyn decides, from the path condition, the dynamic type behind an
// interface value: a concrete in-scope method, "external" (none of the
// in-scope implementors), or unknown.
func (fv *FV) resolveDyn(st *State, recv Val, m *types.Func) (target *ssa.Function, recvType types.Type, external bool) {
	iface, ok := recv.Typ.Underlying().(*types.Interface)
	if !ok {
		return nil, nil, false
	}
	cands := fv.eng.implementors(iface)
	if len(cands) == 0 {
		return nil, nil, true
	}
	ityp := fmt.Sprintf("(ityp %s)", recv.T)
	// literal?
	var ids []string
	byID := map[int64]types.Type{}
	for _, c := range cands {
		id := fv.u.typeID(c)
		ids = append(ids, fmt.Sprintf("(not (= %s %d))", ityp, id))
		byID[int64(id)] = c
	}
	status, val := fv.quickSolve(st, "", ityp)
	if os.Getenv("GOVC_DEBUG") != "" {
		fmt.Fprintf(os.Stderr, "resolveDyn %s in %s: status=%s val=%q cands=%d\n", m.Name(), fv.fc.Key, status, val, len(cands))
	}
	if status != "sat" {
		return nil, nil, false
	}
	v, okNum := smtNum(val)
	if okNum {
		if c, isCand := byID[v]; isCand {
			// entailed?
			s2, _ := fv.quickSolve(st, fmt.Sprintf("(not (= %s %d))", ityp, v), "")
			if os.Getenv("GOVC_DEBUG") != "" {
				fmt.Fprintf(os.Stderr, "  candidate %s entailed=%s\n", c, s2)
			}
			if s2 == "unsat" {
				ms := fv.prog.MethodSets.MethodSet(c)
				sel := ms.Lookup(m.Pkg(), m.Name())
				if sel != nil {
					if fn := fv.prog.MethodValue(sel); fn != nil {
						return fn, c, false
					}
				}
			}
			return nil, nil, false
		}
	}
	// external entailed?
	s3, _ := fv.quickSolve(st, "(not (and "+strings.Join(ids, " ")+"))", "")
	if s3 == "unsat" {
		return nil, nil, true
	}
	return nil, nil, false
}

// havocGhostInFrame havocs the ghost globals a loop containing calls may change.
func (fv *FV) havocGhostInFrame(st *State) {
	names := make([]string, 0)
	for n := range fv.u.db.GGlobal {
		if fv.frame == nil || fv.frame.everything || fv.frame.ghost[n] {
			names = append(names, n)
		}
	}
	sort.Strings(names)
	for _, n := range names {
		s := fv.u.db.GGlobal[n]
		st.ghost[n] = Val{T: fv.fresh("gg_"+n, s), S: s}
	}
}
