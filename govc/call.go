package main

// Calls: builtins, contracts, inlining, modifies.

import (
	"fmt"
	"go/types"
	"sort"
	"strings"

	"golang.org/x/tools/go/ssa"
)

type closureInfo struct {
	fn    *ssa.Function
	binds []Val
}

var recTypeNames = map[string]bool{}

// contentTag marks hypotheses that only describe array contents (append/copy
// axioms); they are dropped from frame obligations, which only concern
// object identities.
const contentTag = ";content;"

func sigKey(sig *types.Signature, norm func(*types.Package) string) string {
	k := sigKey0(sig, norm)
	for n := range recTypeNames {
		k = strings.ReplaceAll(k, "GEN."+n+")", "GEN.REC)")
		k = strings.ReplaceAll(k, "GEN."+n+",", "GEN.REC,")
	}
	return k
}

func sigKey0(sig *types.Signature, norm func(*types.Package) string) string {
	var ps, rs []string
	for i := 0; i < sig.Params().Len(); i++ {
		ps = append(ps, types.TypeString(sig.Params().At(i).Type(), norm))
	}
	for i := 0; i < sig.Results().Len(); i++ {
		rs = append(rs, types.TypeString(sig.Results().At(i).Type(), norm))
	}
	s := "func(" + strings.Join(ps, ", ") + ")"
	if len(rs) == 1 {
		s += " " + rs[0]
	} else if len(rs) > 1 {
		s += " (" + strings.Join(rs, ", ") + ")"
	}
	return s
}

func (fv *FV) call(st *State, instr ssa.Instruction, c *ssa.CallCommon, res ssa.Value, rest func(*State)) {
	at := "call"
	if res != nil {
		at = res.Name()
	}
	bindRes := func(st *State, rs []Val) {
		if res == nil {
			return
		}
		switch len(rs) {
		case 0:
		case 1:
			st.fr.vals[res] = rs[0]
		default:
			st.fr.vals[res] = Val{Tuple: rs}
		}
	}
	if b, ok := c.Value.(*ssa.Builtin); ok {
		v := fv.builtin(st, b, c, at)
		bindRes(st, []Val{v})
		rest(st)
		return
	}
	nbox := len(st.fr.boxes)
	var args []Val
	for _, a := range c.Args {
		args = append(args, fv.asTerm(st, fv.valOf(st, a)))
	}
	done := func(st *State, rs []Val) {
		fv.unboxAll(st, nbox)
		bindRes(st, rs)
		rest(st)
	}
	if c.IsInvoke() {
		recv := fv.asTerm(st, fv.valOf(st, c.Value))
		key := fv.eng.ifaceKey(c.Method)
		fc := fv.u.db.Ifaces[key]
		if fc == nil {
			fv.unsupportedf("no contract for interface method %s", key)
		}
		fv.safety(st, "nil-iface-call", at, fmt.Sprintf("(not (= (ityp %s) 0))", recv.T))
		var target *ssa.Function
		var rtyp types.Type
		external := false
		if !fv.eng.ifaceInScope(c.Method) {
			pruned := false
			func() {
				defer func() {
					if r := recover(); r != nil {
						if _, ok := r.(infeasiblePath); ok {
							pruned = true
							return
						}
						panic(r)
					}
				}()
				target, rtyp, external = fv.resolveDyn(st, recv, c.Method)
			}()
			if pruned {
				fv.paths++
				return
			}
		}
		if target != nil {
			rv := Val{T: fmt.Sprintf("(ival %s)", recv.T), S: "Int", Typ: rtyp}
			if _, isPtr := rtyp.Underlying().(*types.Pointer); !isPtr {
				fv.unsupportedf("interface call resolved to value receiver %s", rtyp)
			}
			fv.eng.note(fmt.Sprintf("interface call %s in %s resolved to %s from the path condition", key, fv.fc.Key, target.String()))
			fv.callFunction(st, target, append([]Val{rv}, args...), 0, at, done)
			return
		}
		if external && key == "io::Reader.Read" && !fv.fc.DirectRead {
			// C08: a bare Read on the user's source may return short; only functions that account
			// for the returned count (marked direct-read) may call it
			fv.addObl(st, "ensures", fmt.Sprintf("direct-read-on-source@%s:%s", st.fr.fn.Name(), at), "false", "a single Read on the user's source is used where the bytes requested are needed in full (short reads are legal)", []string{"C08"})
		}
		if !external && !fv.eng.ifaceInScope(c.Method) {
			// dynamic type unknown and the interface is declared outside the library: the callee may be
			// any implementor; nothing about the heap survives
			fv.touchEverything(st, "iface:"+shortKey(key))
			fv.havocAllHeaps(st)
			fv.assumptions["interface call "+key+" with unknown dynamic type in "+fv.fc.Key+": heap havocked, weak interface contract assumed for every implementor"] = true
		}
		sig := c.Method.Type().(*types.Signature)
		names := []string{"self"}
		for i := 0; i < sig.Params().Len(); i++ {
			n := sig.Params().At(i).Name()
			if n == "" || n == "_" {
				n = fmt.Sprintf("arg%d", i)
			}
			names = append(names, n)
		}
		if fv.eng.ifaceInScope(c.Method) {
			fv.reached["iface:"+key] = true
		} else {
			fv.trusted["iface "+key] = true
		}
		fv.applyContract(st, fc, key, names, append([]Val{recv}, args...), sig.Results(), at, done)
		return
	}
	callee := c.StaticCallee()
	if callee == nil {
		// closure created on this path?
		v := fv.asTerm(st, fv.valOf(st, c.Value))
		if ci, ok := fv.eng.closures[v.T]; ok {
			fv.callFunction(st, ci.fn, append(append([]Val(nil), ci.binds...), args...), len(ci.binds), at, done)
			return
		}
		if id, ok := fv.eng.fnByTerm(v.T); ok {
			fv.callFunction(st, id, args, 0, at, done)
			return
		}
		sig := c.Value.Type().Underlying().(*types.Signature)
		key := sigKey(sig, fv.eng.normQual)
		_ = key
		fc := fv.u.db.FnTypes[key]
		if fc == nil {
			fv.unsupportedf("call of unknown function value of type %q without functype contract", key)
		}
		names := []string{"self"}
		for i := 0; i < sig.Params().Len(); i++ {
			names = append(names, fmt.Sprintf("arg%d", i))
		}
		fv.reached["functype:"+key] = true
		fv.safety(st, "nil-func-call", at, fmt.Sprintf("(not (= %s 0))", v.T))
		fv.applyContract(st, fc, key, names, append([]Val{v}, args...), sig.Results(), at, done)
		return
	}
	if mc, ok := c.Value.(*ssa.MakeClosure); ok {
		var binds []Val
		for _, b := range mc.Bindings {
			binds = append(binds, fv.asTerm(st, fv.valOf(st, b)))
		}
		fv.callFunction(st, callee, append(binds, args...), len(binds), at, done)
		return
	}
	fv.callFunction(st, callee, args, 0, at, done)
}

func paramNames(fn *ssa.Function) []string {
	var names []string
	for i, p := range fn.Params {
		n := p.Name()
		if n == "" || n == "_" {
			n = fmt.Sprintf("arg%d", i)
		}
		names = append(names, n)
	}
	return names
}

func (fv *FV) callFunction(st *State, callee *ssa.Function, args []Val, nbind int, at string, done func(*State, []Val)) {
	fc := fv.eng.contractFor(callee)
	if fc != nil && !fc.NoBody && !fc.Inline {
		var names []string
		for _, f := range callee.FreeVars {
			names = append(names, f.Name())
		}
		names = append(names, paramNames(callee)...)
		if fc.Trusted {
			fv.trusted[fc.Key] = true
		} else {
			fv.reached["func:"+fc.Key] = true
		}
		fv.applyContract(st, fc, fc.Key, names, args, callee.Signature.Results(), at, done)
		return
	}
	if callee.Blocks == nil || !fv.eng.inScope(callee) {
		fv.unsupportedf("no contract for external callee %s", fv.eng.funcKey(callee))
	}
	if st.fr.depth >= 6 {
		fv.unsupportedf("inlining too deep at %s", callee.String())
	}
	for f := st.fr; f != nil; f = f.parent {
		if f.fn == callee {
			fv.unsupportedf("recursive inlining of %s (needs a contract)", callee.String())
		}
	}
	fv.eng.noteInline(fv.fc.Key, fv.eng.funcKey(callee))
	// inline: new frame
	caller := st.fr
	nf := &frame{fn: callee, vals: map[ssa.Value]Val{}, depth: caller.depth + 1, entry: caller.entry, fc: fc, params: map[string]Val{}, names: map[string]Val{}, parent: caller}
	for i, f := range callee.FreeVars {
		nf.vals[f] = args[i]
	}
	for i, p := range callee.Params {
		nf.vals[p] = args[nbind+i]
		nf.params[p.Name()] = args[nbind+i]
		nf.names[p.Name()] = args[nbind+i]
	}
	nf.ret = func(st *State, rs []Val) {
		// run no defers here: RunDefers precedes Return in SSA
		var out []Val
		for _, r := range rs {
			out = append(out, fv.asTerm(st, r))
		}
		st.fr = st.fr.parent
		done(st, out)
	}
	st.fr = nf
	fv.execBlock(st, callee.Blocks[0], nil)
}

func resultNames(sig *types.Tuple) []string {
	var out []string
	n := sig.Len()
	for i := 0; i < n; i++ {
		nm := sig.At(i).Name()
		if nm == "" || nm == "_" {
			if n == 1 {
				nm = "res"
			} else {
				nm = fmt.Sprintf("res%d", i)
			}
		}
		out = append(out, nm)
	}
	return out
}

func isErrorType(t types.Type) bool {
	n, ok := t.(*types.Named)
	return ok && n.Obj().Pkg() == nil && n.Obj().Name() == "error"
}

// applyContract: check requires, apply frame, assume ensures.
func (fv *FV) applyContract(st *State, fc *FuncContract, key string, names []string, args []Val, results *types.Tuple, at string, done func(*State, []Val)) {
	env := &Env{fv: fv, vars: map[string]Val{}, st: st, old: nil, fn: st.fr.fn}
	for i, n := range names {
		if i < len(args) {
			env.vars[n] = args[i]
		}
	}
	for _, r := range fc.Requires {
		if r.Free {
			continue
		}
		g := fv.evalGoal(st, r.E, env, 0)
		tags := r.Tags
		fv.addObl(st, "pre", fmt.Sprintf("pre(%s):%s@%s:%s", shortKey(key), r.Name, st.fr.fn.Name(), at), g, r.Src, tags)
		fv.assumeSpec(st, r.E, env)
	}
	old := st.clone()
	env.old = old
	// ghost-entry updates happen in the callee before its body; model them here
	for _, ga := range fc.GhostEntry {
		fv.ghostAssign(st, ga, env)
	}
	// the callee may allocate: objects it modifies may refer to objects it allocated
	na := fv.fresh("alloc", "Int")
	st.assume(fmt.Sprintf("(>= %s %s)", na, st.alloc))
	allocBefore := st.alloc
	st.alloc = na
	// frame
	if fc.HasMod {
		fv.applyModifies(st, fc.Modifies, env)
	} else if !fc.Pure {
		fv.touchEverything(st, "call:"+shortKey(key))
		fv.havocAllHeaps(st)
		fv.havocGhost(st)
	}
	// tracked types: a callee allocates objects of a tracked type only if its contract says so
	if tr := fv.trackedTypes(); len(tr) > 0 {
		var names []string
		for n := range tr {
			names = append(names, n)
		}
		sortStrings(names)
		for _, n := range names {
			if fc.Trusted && fc.Refines == "" {
				fv.assumptions["trusted or external callees allocate no object of the tracked type "+n+" (they cannot name it)"] = true
			}
			if fc.Allocates[n] {
				if !fv.fc.Allocates[n] {
					fv.nTouch++
					fv.addObl(st, "frame", fmt.Sprintf("allocates:%s:callee#%d@%s", n, fv.nTouch, st.fr.fn.Name()), "false", "calls "+shortKey(key)+", which allocates objects of tracked type "+n+", without declaring it", nil)
				}
				continue
			}
			st.assume(fmt.Sprintf("(forall ((r Int)) (! (=> (and (> r %s) (<= r %s)) (not (= (rtype r) %d))) :pattern ((rtype r))))", allocBefore, na, tr[n]))
		}
	}
	// results
	var rs []Val
	rn := resultNames(results)
	for i := 0; i < results.Len(); i++ {
		t := results.At(i).Type()
		s := fv.u.sortOf(t, fv.bv)
		v := Val{T: fv.fresh("r_"+shortKey(key), s), S: s, Typ: t}
		fv.assumeWF(st, v)
		rs = append(rs, v)
		env.vars[rn[i]] = v
		env.vars[fmt.Sprintf("res%d", i)] = v
		if results.Len() == 1 {
			env.vars["res"] = v
		}
		if isErrorType(t) && i == results.Len()-1 {
			if _, taken := env.vars["err"]; !taken || rn[i] == "err" {
				env.vars["err"] = v
			}
		}
	}
	env.st = st
	// ghost-exit assignments of the callee: the ghost global has the stated value afterwards
	for _, ga := range fc.GhostExit {
		if ga.LHS.Op == "id" {
			if cur, ok := st.ghost[ga.LHS.Name]; ok {
				rhs := fv.evalSpec(ga.RHS, env)
				st.assume(fmt.Sprintf("(= %s %s)", cur.T, rhs.T))
			}
		}
	}
	for _, e := range fc.Ensures {
		func() {
			defer func() {
				if r := recover(); r != nil {
					if sf, ok := r.(specFail); ok && fv.bv != (fc.Mode == "bv") {
						// clause not expressible in the caller's arithmetic mode: skipped (weaker assumption)
						fv.eng.note(fmt.Sprintf("clause %s of %s not usable in %s-mode caller %s: %s", e.Name, key, map[bool]string{true: "bv", false: "int"}[fv.bv], fv.fc.Key, string(sf)))
						return
					}
					panic(r)
				}
			}()
			fv.assumeSpec(st, e.E, env)
		}()
	}
	for _, pg := range st.pendingGhost {
		fv.nTouch++
		cur := st.ghost[pg[0]]
		fv.addObl(st, "frame", fmt.Sprintf("frame:ghost-%s:callee#%d@%s", pg[0], fv.nTouch, st.fr.fn.Name()), fmt.Sprintf("(= %s %s)", cur.T, pg[1]), "ghost global "+pg[0]+" is not in the modifies clause: the callee must leave it unchanged here", nil)
	}
	st.pendingGhost = nil
	done(st, rs)
}

func shortKey(k string) string {
	if i := strings.LastIndex(k, "::"); i >= 0 {
		k = k[i+2:]
	}
	if i := strings.LastIndex(k, "/"); i >= 0 {
		k = k[i+1:]
	}
	return k
}

func (fv *FV) havocGhost(st *State) {
	names := make([]string, 0, len(fv.u.db.GGlobal))
	for n := range fv.u.db.GGlobal {
		names = append(names, n)
	}
	sort.Strings(names)
	for _, n := range names {
		s := fv.u.db.GGlobal[n]
		st.ghost[n] = Val{T: fv.fresh("gg_"+n, s), S: s}
		fv.natGhost(st, n)
	}
}

// natGhost: a ghost global declared "nat" is never negative.
func (fv *FV) natGhost(st *State, n string) {
	if fv.u.db.GNat[n] {
		st.assume(fmt.Sprintf("(>= %s 0)", st.ghost[n].T))
	}
}

func (fv *FV) ghostAssign(st *State, ga GhostAssign, env *Env) {
	rhs := fv.evalSpec(ga.RHS, env)
	switch ga.LHS.Op {
	case "id":
		if _, ok := fv.u.db.GGlobal[ga.LHS.Name]; ok {
			fv.touchGhost(st, ga.LHS.Name, "assign")
			st.ghost[ga.LHS.Name] = Val{T: fv.define(st, "gg_"+ga.LHS.Name, rhs.S, rhs.T), S: rhs.S}
			return
		}
	case "field":
		base := fv.asTermSpec(env, fv.evalSpec(ga.LHS.Args[0], env))
		if gf, ok := fv.u.db.GFields[structName(base.Typ)+"."+ga.LHS.Name]; ok {
			k := "G_" + gf.Struct + "_" + gf.Name
			fv.touch(st, "", base.T, "ghost-field")
			fv.setHeapK(st, k, gf.Sort, fmt.Sprintf("(store %s %s %s)", fv.ghostHeap(st, gf), base.T, rhs.T))
			return
		}
	case "index":
		// x.W[i] := v
		inner := ga.LHS.Args[0]
		if inner.Op == "field" {
			base := fv.asTermSpec(env, fv.evalSpec(inner.Args[0], env))
			if gf, ok := fv.u.db.GFields[structName(base.Typ)+"."+inner.Name]; ok {
				idx := fv.evalSpec(ga.LHS.Args[1], env)
				k := "G_" + gf.Struct + "_" + gf.Name
				h := fv.ghostHeap(st, gf)
				fv.touch(st, "", base.T, "ghost-field")
				fv.setHeapK(st, k, gf.Sort, fmt.Sprintf("(store %s %s (store (select %s %s) %s %s))", h, base.T, h, base.T, idx.T, rhs.T))
				return
			}
		}
	}
	fv.specErr("unsupported ghost assignment target %s", ga.LHS)
}

// applyModifies havocs exactly the listed locations.
func (fv *FV) applyModifies(st *State, mods []*Expr, env *Env) {
	// targets are evaluated in the pre-state, then havocked
	pre := *env
	pre.st = st.clone()
	for _, m := range mods {
		fv.applyModify(st, m, &pre)
	}
}

func (fv *FV) applyModify(st *State, m *Expr, env *Env) {
	switch {
	case m.Op == "id" && m.Name == "callerfresh":
		// trusted callees only: may write objects the caller allocated since its own entry
		keys := make([]string, 0)
		for k := range fv.heapsUsed {
			keys = append(keys, k)
		}
		sortStrings(keys)
		for _, k := range keys {
			old := fv.heapK(st, k, fv.heapsUsed[k])
			n := fv.havocHeap(st, k)
			st.assume(fmt.Sprintf("(forall ((r Int)) (! (=> (<= r alloc!entry) (= (select %s r) (select %s r))) :pattern ((select %s r))))", n, old, n))
		}
		return
	case m.Op == "id" && m.Name == "allheaps":
		fv.touchAllHeaps(st, "callee", nil)
		fv.havocAllHeaps(st)
		return
	case m.Op == "call" && m.Name == "allexcept":
		ex := map[string]bool{}
		for _, a := range m.Args {
			for _, k := range fv.heapKeysOfTypeName(a.Name) {
				ex[k] = true
			}
		}
		fv.touchAllHeaps(st, "callee", ex)
		keys := make([]string, 0)
		for k := range fv.heapsUsed {
			if !ex[k] {
				keys = append(keys, k)
			}
		}
		sortStrings(keys)
		for _, k := range keys {
			fv.havocHeap(st, k)
		}
		return
	case m.Op == "call" && m.Name == "anyobj":
		ik := "iface:" + m.Args[0].Name
		if fs := fv.frame; fs != nil && !fs.everything && !fs.heaps[ik] && !(fs.allHeaps) {
			fv.nTouch++
			fv.addObl(st, "frame", fmt.Sprintf("frame:callee-anyobj#%d@%s", fv.nTouch, st.fr.fn.Name()), "false", "callee may modify any object behind a "+m.Args[0].Name, nil)
		}
		for _, k := range fv.implementorHeaps(m.Args[0].Name) {
			fv.heap(st, k)
			fv.havocHeap(st, k)
		}
		return
	case m.Op == "id" && m.Name == "everything":
		fv.touchEverything(st, "modifies-everything")
		fv.havocAllHeaps(st)
		fv.havocGhost(st)
		return
	case m.Op == "id" && fv.u.db.GGlobal[m.Name] != "":
		s := fv.u.db.GGlobal[m.Name]
		if fs := fv.frame; fs != nil && !fs.everything && !fs.ghost[m.Name] {
			// not in the caller's frame: the callee's postcondition must imply it is unchanged
			oldv, _ := fv.lookupId(m.Name, env)
			st.pendingGhost = append(st.pendingGhost, [2]string{m.Name, oldv.T})
		}
		st.ghost[m.Name] = Val{T: fv.fresh("gg_"+m.Name, s), S: s}
		fv.natGhost(st, m.Name)
		return
	case m.Op == "call" && m.Name == "HA":
		s := fv.evalSpec(m.Args[0], env)
		es := "Int"
		if s.Typ != nil {
			if sl, ok := s.Typ.Underlying().(*types.Slice); ok {
				es = fv.u.sortOf(sl.Elem(), fv.bv)
			}
		}
		hs := "(Array Int " + es + ")"
		h := fv.heap(st, hs)
		na := fv.fresh("arr", hs)
		fv.touch(st, hs, fmt.Sprintf("(sref %s)", s.T), "callee-HA")
		fv.setHeap(st, hs, fmt.Sprintf("(store %s (sref %s) %s)", h, s.T, na))
		return
	case m.Op == "call" && m.Name == "HAif":
		// HAif(cond, s): the array behind slice s, only when cond holds (callee contracts)
		c := fv.evalBool(m.Args[0], env)
		s := fv.evalSpec(m.Args[1], env)
		es := "Int"
		if s.Typ != nil {
			if sl, ok := s.Typ.Underlying().(*types.Slice); ok {
				es = fv.u.sortOf(sl.Elem(), fv.bv)
			}
		}
		hs := "(Array Int " + es + ")"
		h := fv.heap(st, hs)
		na := fv.fresh("arr", hs)
		fv.touchUnless(st, hs, fmt.Sprintf("(sref %s)", s.T), "callee-HA", "(not "+c+")")
		fv.setHeap(st, hs, fmt.Sprintf("(ite %s (store %s (sref %s) %s) %s)", c, h, s.T, na, h))
		return
	case m.Op == "call" && m.Name == "obj":
		fv.havocObject(st, fv.evalSpec(m.Args[0], env), env)
		return
	case m.Op == "call" && m.Name == "heap":
		// heap("T"): the whole heap of a sort (coarse region)
		for _, k := range fv.heapKeysOfTypeName(m.Args[0].Name) {
			if fs := fv.frame; fs != nil && !fs.everything && !fs.heaps[k] && !(fs.allHeaps && !fs.except[k]) {
				fv.nTouch++
				fv.addObl(st, "frame", fmt.Sprintf("frame:callee-heap#%d@%s", fv.nTouch, st.fr.fn.Name()), "false", "callee modifies the whole heap of "+m.Args[0].Name, nil)
			}
			fv.heap(st, k)
			fv.havocHeap(st, k)
		}
		return
	case m.Op == "call" && m.Name == "mapOf":
		mv := fv.evalSpec(m.Args[0], env)
		mt := mv.Typ.Underlying().(*types.Map)
		ks, vs := fv.u.sortOf(mt.Key(), fv.bv), fv.u.sortOf(mt.Elem(), fv.bv)
		fv.touch(st, "(Array " + ks + " " + vs + ")", mv.T, "callee-map")
		for _, hs := range []string{"(Array " + ks + " Bool)", "(Array " + ks + " " + vs + ")"} {
			h := fv.heap(st, hs)
			fv.setHeap(st, hs, fmt.Sprintf("(store %s %s %s)", h, mv.T, fv.fresh("mapc", hs)))
		}
		return
	case m.Op == "field" && m.Name == "*":
		fv.havocObject(st, fv.evalSpec(m.Args[0], env), env)
		return
	case m.Op == "field":
		base := fv.evalSpec(m.Args[0], env)
		if gf, ok := fv.u.db.GFields[structName(base.Typ)+"."+m.Name]; ok {
			b := fv.asTermSpec(env, base)
			k := "G_" + gf.Struct + "_" + gf.Name
			fv.touch(st, "", b.T, "callee-ghost-field")
			fv.setHeapK(st, k, gf.Sort, fmt.Sprintf("(store %s %s %s)", fv.ghostHeap(st, gf), b.T, fv.fresh("g_"+gf.Name, gf.Sort)))
			return
		}
		// a pointer-valued field denotes the object it points to
		fv.havocObject(st, fv.fieldOf(base, m.Name, env, m), env)
		return
	default:
		v := fv.evalSpec(m, env)
		fv.havocObject(st, v, env)
	}
}

func (fv *FV) havocObject(st *State, v Val, env *Env) {
	if v.Typ == nil {
		fv.specErr("modifies target without type")
	}
	switch t := v.Typ.Underlying().(type) {
	case *types.Pointer:
		sort := fv.u.sortOf(t.Elem(), fv.bv)
		b := fv.asTermSpec(env, v)
		h := fv.heap(st, sort)
		fv.touch(st, sort, b.T, "callee-object")
		nv := fv.fresh("obj", sort)
		fv.setHeap(st, sort, fmt.Sprintf("(store %s %s %s)", h, b.T, nv))
		fv.assumeStructWF(st, nv, t.Elem())
		// ghost fields of that struct
		sn := structName(v.Typ)
		var gfs []string
		for k, gf := range fv.u.db.GFields {
			if gf.Struct == sn {
				gfs = append(gfs, k)
			}
		}
		sort2 := gfs
		sortStrings(sort2)
		for _, k := range sort2 {
			gf := fv.u.db.GFields[k]
			kk := "G_" + gf.Struct + "_" + gf.Name
			fv.setHeapK(st, kk, gf.Sort, fmt.Sprintf("(store %s %s %s)", fv.ghostHeap(st, gf), b.T, fv.fresh("g_"+gf.Name, gf.Sort)))
		}
	case *types.Interface:
		// object behind an interface: unknown concrete type: havoc that index in every heap
		b := fv.asTermSpec(env, v)
		ref := fv.define(st, "ifobj", "Int", fmt.Sprintf("(ival %s)", b.T))
		// the object behind a non-library interface value is not a library object
		ik := ""
		if n, ok := v.Typ.(*types.Named); ok {
			ik = "iface:" + fv.eng.normQual(n.Obj().Pkg()) + "." + n.Obj().Name()
		}
		fv.touchUnless(st, ik, ref, "callee-iface-object", fmt.Sprintf("(not (lib_type (ityp %s)))", b.T))
		// only the struct object whose pointer type is the dynamic type can be meant
		keys := make([]string, 0)
		for k := range fv.heapsUsed {
			keys = append(keys, k)
		}
		sortStrings(keys)
		for _, k := range keys {
			srt := fv.heapsUsed[k]
			si, isStruct := fv.u.structs[srt]
			if !isStruct || k != srt || si.GoType == nil {
				continue
			}
			// only a type that implements the interface can be behind it
			if it, ok := v.Typ.Underlying().(*types.Interface); ok && !it.Empty() && !types.Implements(types.NewPointer(si.GoType), it) {
				continue
			}
			id := fv.u.typeID(types.NewPointer(si.GoType))
			h := fv.heapK(st, k, srt)
			fv.setHeapK(st, k, srt, fmt.Sprintf("(ite (= (ityp %s) %d) (store %s %s %s) %s)", b.T, id, h, ref, fv.fresh("ifo", srt), h))
			// ghost fields of that object change with it
			if nt, ok := si.GoType.(*types.Named); ok {
				var gks []string
				for gk, gf := range fv.u.db.GFields {
					if gf.Struct == nt.Obj().Name() {
						gks = append(gks, gk)
					}
				}
				sortStrings(gks)
				for _, gk := range gks {
					gf := fv.u.db.GFields[gk]
					hk := "G_" + gf.Struct + "_" + gf.Name
					gh := fv.ghostHeap(st, gf)
					fv.setHeapK(st, hk, gf.Sort, fmt.Sprintf("(ite (= (ityp %s) %d) (store %s %s %s) %s)", b.T, id, gh, ref, fv.fresh("g_"+gf.Name, gf.Sort), gh))
				}
			}
		}
	default:
		fv.specErr("modifies: unsupported target type %s", v.Typ)
	}
}

func sortStrings(s []string) { sort.Strings(s) }

// assumeStructWF adds well-formedness of the fields of a havocked struct value.
func (fv *FV) assumeStructWF(st *State, term string, t types.Type) {
	stt, ok := t.Underlying().(*types.Struct)
	if !ok {
		return
	}
	si := fv.u.structInfo(t, fv.bv)
	for i := 0; i < stt.NumFields(); i++ {
		ft := stt.Field(i).Type()
		fvv := Val{T: fmt.Sprintf("(%s %s)", si.Fields[i], term), S: si.FSorts[i], Typ: ft}
		if _, isStruct := ft.Underlying().(*types.Struct); isStruct {
			fv.assumeStructWF(st, fvv.T, ft)
			continue
		}
		fv.assumeWF(st, fvv)
	}
}

func (fv *FV) builtin(st *State, b *ssa.Builtin, c *ssa.CallCommon, at string) Val {
	switch b.Name() {
	case "len", "cap":
		x := fv.valOf(st, c.Args[0])
		rt := types.Typ[types.Int]
		switch t := c.Args[0].Type().Underlying().(type) {
		case *types.Slice:
			if b.Name() == "len" {
				return fv.intResult(fmt.Sprintf("(slen %s)", x.T), rt)
			}
			return fv.intResult(fmt.Sprintf("(scap %s)", x.T), rt)
		case *types.Basic:
			return fv.intResult(fmt.Sprintf("(str_len %s)", x.T), rt)
		case *types.Array:
			return fv.intResult(fmt.Sprint(t.Len()), rt)
		case *types.Pointer:
			return fv.intResult(fmt.Sprint(t.Elem().Underlying().(*types.Array).Len()), rt)
		case *types.Map:
			n := fv.fresh("maplen", "Int")
			st.assume(fmt.Sprintf("(>= %s 0)", n))
			return fv.intResult(n, rt)
		}
	case "append":
		s := fv.asTerm(st, fv.valOf(st, c.Args[0]))
		if len(c.Args) == 1 {
			return s
		}
		t := fv.asTerm(st, fv.valOf(st, c.Args[1]))
		return fv.appendSlices(st, s, t, c.Args[0].Type(), c.Args[1])
	case "copy":
		d := fv.asTerm(st, fv.valOf(st, c.Args[0]))
		s := fv.asTerm(st, fv.valOf(st, c.Args[1]))
		if s.S != "Slice" {
			fv.unsupportedf("copy from string")
		}
		et := c.Args[0].Type().Underlying().(*types.Slice).Elem()
		hs := "(Array Int " + fv.u.sortOf(et, fv.bv) + ")"
		n := fv.define(st, "ncopy", "Int", fmt.Sprintf("(ite (<= (slen %s) (slen %s)) (slen %s) (slen %s))", d.T, s.T, d.T, s.T))
		h := fv.heap(st, hs)
		src := fv.define(st, "csrc", hs, fmt.Sprintf("(select %s (sref %s))", h, s.T))
		dst := fv.define(st, "cdst", hs, fmt.Sprintf("(select %s (sref %s))", h, d.T))
		na := fv.fresh("copied", hs)
		st.assume(contentTag + fmt.Sprintf("(forall ((k Int)) (! (= (select %s k) (ite (and (<= (soff %s) k) (< k (+ (soff %s) %s))) (select %s (+ (- k (soff %s)) (soff %s))) (select %s k))) :pattern ((select %s k))))",
			na, d.T, d.T, n, src, d.T, s.T, dst, na))
		fv.touchUnless(st, hs, fmt.Sprintf("(sref %s)", d.T), "copy", fmt.Sprintf("(= %s 0)", n))
		fv.setHeap(st, hs, fmt.Sprintf("(store %s (sref %s) %s)", h, d.T, na))
		return fv.intResult(n, types.Typ[types.Int])
	}
	fv.unsupportedf("builtin %s", b.Name())
	return Val{}
}

// appendSlices models append(s, t...) without forking: in place when the
// capacity suffices, a fresh backing array otherwise.
func (fv *FV) appendSlices(st *State, s, t Val, typ types.Type, targ ssa.Value) Val {
	if t.S != "Slice" {
		fv.unsupportedf("append of string")
	}
	et := typ.Underlying().(*types.Slice).Elem()
	es := fv.u.sortOf(et, fv.bv)
	hs := "(Array Int " + es + ")"
	h := fv.heap(st, hs)
	n := fmt.Sprintf("(slen %s)", t.T)
	newlen := fv.define(st, "alen", "Int", fmt.Sprintf("(+ (slen %s) %s)", s.T, n))
	fits := fv.define(st, "fits", "Bool", fmt.Sprintf("(<= %s (scap %s))", newlen, s.T))
	r2 := fv.newRef(st, "app")
	ncap := fv.fresh("acap", "Int")
	st.assume(fmt.Sprintf("(>= %s %s)", ncap, newlen))
	ref := fv.define(st, "aref", "Int", fmt.Sprintf("(ite %s (sref %s) %s)", fits, s.T, r2))
	off := fv.define(st, "aoff", "Int", fmt.Sprintf("(ite %s (soff %s) 0)", fits, s.T))
	cp := fv.define(st, "acp", "Int", fmt.Sprintf("(ite %s (scap %s) %s)", fits, s.T, ncap))
	oldS := fv.define(st, "aolds", hs, fmt.Sprintf("(select %s (sref %s))", h, s.T))
	oldT := fv.define(st, "aoldt", hs, fmt.Sprintf("(select %s (sref %s))", h, t.T))
	na := fv.fresh("appended", hs)
	// contents: old prefix, then the appended elements; in place: everything else unchanged
	st.assume(contentTag + fmt.Sprintf("(forall ((k Int)) (! (=> (and (<= %s k) (< k (+ %s (slen %s)))) (= (select %s k) (select %s (+ (- k %s) (soff %s))))) :pattern ((select %s k))))",
		off, off, s.T, na, oldS, off, s.T, na))
	// small constant count: unrolled (quantifier-free); otherwise quantified
	cnt := -1
	if sl, ok := targ.(*ssa.Slice); ok {
		if al, ok := sl.X.(*ssa.Alloc); ok {
			if at, ok := al.Type().Underlying().(*types.Pointer).Elem().Underlying().(*types.Array); ok && sl.Low == nil && sl.High == nil && at.Len() <= 8 {
				cnt = int(at.Len())
			}
		}
	}
	if cnt >= 0 {
		for j := 0; j < cnt; j++ {
			st.assume(contentTag + fmt.Sprintf("(= (select %s (+ %s (slen %s) %d)) (select %s (+ (soff %s) %d)))", na, off, s.T, j, oldT, t.T, j))
		}
	} else {
		st.assume(contentTag + fmt.Sprintf("(forall ((k Int)) (! (=> (and (<= (+ %s (slen %s)) k) (< k (+ %s %s))) (= (select %s k) (select %s (+ (- k (+ %s (slen %s))) (soff %s))))) :pattern ((select %s k))))",
			off, s.T, off, newlen, na, oldT, off, s.T, t.T, na))
	}
	st.assume(contentTag + fmt.Sprintf("(=> %s (forall ((k Int)) (! (=> (or (< k (+ %s (slen %s))) (>= k (+ %s %s))) (= (select %s k) (select %s k))) :pattern ((select %s k)))))",
		fits, off, s.T, off, newlen, na, oldS, na))
	fv.touchUnless(st, hs, ref, "append", fmt.Sprintf("(= %s 0)", n))
	fv.setHeap(st, hs, fmt.Sprintf("(store %s %s %s)", h, ref, na))
	return Val{T: fv.define(st, "app", "Slice", fmt.Sprintf("(mk-slice %s %s %s %s)", ref, off, newlen, cp)), S: "Slice", Typ: typ}
}
