package main

// Engine: loading, per-function verification, SMT emission, discharge.

import (
	"fmt"
	"go/types"
	"os"
	"path/filepath"
	"runtime/debug"
	"sort"
	"strings"
	"sync"
	"time"

	"golang.org/x/tools/go/packages"
	"golang.org/x/tools/go/ssa"
	"golang.org/x/tools/go/ssa/ssautil"
)

type Engine struct {
	repo     string
	genRoot  string // scratch module with generated corpus packages
	prog     *ssa.Program
	pkgs     []*ssa.Package
	db       *DB
	u        *Universe
	fnByID   map[int]*ssa.Function
	closures map[string]*closureInfo
	loops    map[*ssa.Function]map[*ssa.BasicBlock]*loopInfo
	notes    map[string]bool
	inlines  map[string]map[string]bool
	boxes    map[string]int
	allSafety bool
	scopePkgs map[string]bool
	funcs    map[string][]*ssa.Function // contract key -> functions (several for generated corpus)
	mu       sync.Mutex
	tmp      string
	timeout  int
	allSolvers bool
	workers  int
	typeNames map[string]types.Type
}

const genModule = "gencorpus"

func (e *Engine) note(s string) {
	e.mu.Lock()
	e.notes[s] = true
	e.mu.Unlock()
}
func (e *Engine) noteInline(caller, callee string) {
	if e.inlines[caller] == nil {
		e.inlines[caller] = map[string]bool{}
	}
	e.inlines[caller][callee] = true
}
func (e *Engine) noteBox(fn string) { e.boxes[fn]++ }

func (e *Engine) normPkgPath(p string) string {
	if strings.HasPrefix(p, genModule+"/") || p == genModule {
		return "GEN"
	}
	return p
}

func (e *Engine) normQual(p *types.Package) string {
	if p == nil {
		return ""
	}
	if e.normPkgPath(p.Path()) == "GEN" {
		return "GEN"
	}
	return p.Name()
}

func (e *Engine) funcKey(fn *ssa.Function) string {
	if fn.Pkg == nil {
		// synthetic wrappers, instantiations
		if fn.Parent() != nil {
			return e.funcKey(fn.Parent()) + "$" + fn.Name()
		}
		return "?::" + fn.String()
	}
	rel := fn.RelString(fn.Pkg.Pkg)
	return e.normPkgPath(fn.Pkg.Pkg.Path()) + "::" + rel
}

func (e *Engine) ifaceKey(m *types.Func) string {
	// (io.Reader).Read -> io::Reader.Read ; generated -> GEN::Field.Write
	sig := m.Type().(*types.Signature)
	recv := sig.Recv().Type()
	if n, ok := recv.(*types.Named); ok {
		pkg := "builtin"
		if n.Obj().Pkg() != nil {
			pkg = e.normPkgPath(n.Obj().Pkg().Path())
		}
		return pkg + "::" + n.Obj().Name() + "." + m.Name()
	}
	return "?::" + m.FullName()
}

func (e *Engine) contractFor(fn *ssa.Function) *FuncContract {
	return e.db.Funcs[e.funcKey(fn)]
}

func (e *Engine) inScope(fn *ssa.Function) bool {
	if fn.Pkg == nil {
		if fn.Parent() != nil {
			return e.inScope(fn.Parent())
		}
		return false
	}
	return e.scopePkgs[fn.Pkg.Pkg.Path()]
}

func (e *Engine) fnByTerm(t string) (*ssa.Function, bool) {
	var id int
	if _, err := fmt.Sscanf(t, "%d", &id); err == nil && fmt.Sprint(id) == t {
		f, ok := e.fnByID[id]
		return f, ok
	}
	return nil, false
}

func (e *Engine) typeIDByName(name string) (int, bool) {
	t, ok := e.typeNames[name]
	if !ok {
		return 0, false
	}
	return e.u.typeID(t), true
}

// load builds SSA for the repository packages and (optionally) the generated corpus.
func (e *Engine) load(patterns []string, dir string) error {
	cfg := &packages.Config{Mode: packages.LoadAllSyntax, Dir: dir, BuildFlags: []string{"-tags=verif"},
		Env: append(os.Environ(), "GOFLAGS=-mod=mod", "GOPROXY=off", "GOSUMDB=off", "GOTOOLCHAIN=local")}
	pkgs, err := packages.Load(cfg, patterns...)
	if err != nil {
		return err
	}
	var errs []string
	packages.Visit(pkgs, nil, func(p *packages.Package) {
		for _, er := range p.Errors {
			errs = append(errs, er.Error())
		}
	})
	if len(errs) > 0 {
		return fmt.Errorf("package errors: %s", strings.Join(errs, "; "))
	}
	prog, spkgs := ssautil.AllPackages(pkgs, ssa.InstantiateGenerics|ssa.GlobalDebug)
	prog.Build()
	e.prog = prog
	e.scopePkgs = map[string]bool{}
	for _, p := range spkgs {
		if p == nil {
			continue
		}
		e.pkgs = append(e.pkgs, p)
		path := p.Pkg.Path()
		if strings.HasPrefix(path, "github.com/parsyl/parquet") && !strings.HasPrefix(path, "github.com/parsyl/parquet/schema") || strings.HasPrefix(path, genModule) {
			e.scopePkgs[path] = true
		}
	}
	// named types for typeid("...")
	e.typeNames = map[string]types.Type{}
	for _, p := range prog.AllPackages() {
		for _, m := range p.Members {
			if t, ok := m.(*ssa.Type); ok {
				q := pkgAlias(p.Pkg) + "." + t.Name()
				e.typeNames[q] = t.Type()
				e.typeNames["*"+q] = types.NewPointer(t.Type())
			}
		}
	}
	// index functions by contract key
	e.funcs = map[string][]*ssa.Function{}
	for fn := range ssautil.AllFunctions(prog) {
		if fn.Pkg == nil && fn.Parent() == nil {
			continue
		}
		if fn.Synthetic != "" && !strings.HasPrefix(fn.Synthetic, "package init") {
			// wrappers and thunks are not verified
			if fn.Parent() == nil {
				continue
			}
		}
		k := e.funcKey(fn)
		e.funcs[k] = append(e.funcs[k], fn)
	}
	for _, l := range e.funcs {
		sort.Slice(l, func(i, j int) bool { return l[i].String() < l[j].String() })
	}
	return nil
}

type FuncResult struct {
	Key    string
	Fn     string
	Obls   []*Obligation
	Err    string // unsupported / spec error
	Paths  int
	Trusted []string
	Assumptions []string
	Secs   float64
}

// verifyFunction runs the symbolic executor on fn under contract fc.
func (e *Engine) verifyFunction(fn *ssa.Function, fc *FuncContract) (res *FuncResult) {
	t0 := time.Now()
	res = &FuncResult{Key: fc.Key, Fn: fn.String()}
	fv := &FV{u: e.u, prog: e.prog, fn: fn, fc: fc, bv: fc.Mode == "bv", declS: map[string]bool{}, maxPaths: 20000,
		heapsUsed: map[string]string{}, trusted: map[string]bool{}, assumptions: map[string]bool{}, eng: e}
	defer func() {
		if r := recover(); r != nil {
			switch x := r.(type) {
			case unsupported:
				res.Err = "outside accepted subset: " + string(x)
			case specFail:
				res.Err = "contract error: " + string(x)
			default:
				res.Err = fmt.Sprintf("internal error: %v\n%s", r, debug.Stack())
			}
		}
		res.Obls = fv.obls
		res.Paths = fv.paths
		for k := range fv.trusted {
			res.Trusted = append(res.Trusted, k)
		}
		sort.Strings(res.Trusted)
		for k := range fv.assumptions {
			res.Assumptions = append(res.Assumptions, k)
		}
		sort.Strings(res.Assumptions)
		// attach SMT text
		pre := e.u.prelude(nil, e.db, nil)
		decls := strings.Join(fv.decls, "\n")
		for _, o := range fv.obls {
			o.SMT = buildSMT(pre, decls, o)
			o.Bytes = len(o.SMT)
			o.Query = fv.query
		}
		res.Secs = time.Since(t0).Seconds()
	}()
	if fn.Blocks == nil {
		res.Err = "no body"
		return
	}
	fv.declare("alloc!entry", "Int")
	st := &State{heaps: map[string]string{}, ghost: map[string]Val{}, alloc: "alloc!entry"}
	st.assume("(> alloc!entry 0)")
	fr := &frame{fn: fn, vals: map[ssa.Value]Val{}, fc: fc, params: map[string]Val{}, names: map[string]Val{}}
	st.fr = fr
	bindParam := func(v ssa.Value, name string) {
		s := e.u.sortOf(v.Type(), fv.bv)
		pv := Val{T: "p_" + mangle(name), S: s, Typ: v.Type()}
		fv.declare(pv.T, s)
		fr.vals[v] = pv
		fr.params[name] = pv
		fr.names[name] = pv
		fv.assumeWF(st, pv)
		switch {
		case s == "Slice":
			fv.query = append(fv.query, modelQuery{name + ".len", "(slen " + pv.T + ")"})
			if sl, ok := v.Type().Underlying().(*types.Slice); ok {
				es := e.u.sortOf(sl.Elem(), fv.bv)
				if es == "Int" || isBV(es) || es == "Bool" {
					h := fv.heap(st, "(Array Int "+es+")")
					for i := 0; i < 16; i++ {
						fv.query = append(fv.query, modelQuery{fmt.Sprintf("%s[%d]", name, i), fmt.Sprintf("(select (select %s (sref %s)) (+ (soff %s) %d))", h, pv.T, pv.T, i)})
					}
				}
			}
		case s == "Int" || isBV(s) || s == "Bool" || isFP(s):
			fv.query = append(fv.query, modelQuery{name, pv.T})
		}
	}
	for _, f := range fn.FreeVars {
		bindParam(f, f.Name())
	}
	for i, p := range fn.Params {
		n := p.Name()
		if n == "" || n == "_" {
			n = fmt.Sprintf("arg%d", i)
		}
		bindParam(p, n)
	}
	env := fv.envFor(st)
	env.old = st
	for _, r := range fc.Requires {
		st.assume(fv.evalBool(r.E, env))
	}
	// cover: preconditions satisfiable
	o := &Obligation{Func: fc.Key, Name: "cover:requires", Kind: "cover", Hyps: append([]string(nil), st.pc...), Goal: "false", Expect: "sat", Src: "preconditions are satisfiable"}
	fv.obls = append(fv.obls, o)
	fv.computeFrame(st, env)
	entry := st.clone()
	fr.entry = entry
	st.fr.entry = entry
	for _, ga := range fc.GhostEntry {
		fv.ghostAssign(st, ga, env)
	}
	rn := resultNames(fn.Signature.Results())
	fr.ret = func(st *State, rs []Val) {
		fv.paths++
		if fv.paths > fv.maxPaths {
			fv.unsupportedf("more than %d paths", fv.maxPaths)
		}
		env := fv.envFor(st)
		env.names = nil // locals are out of scope; only params/results
		for i, r := range rs {
			if r.Loc == nil && r.Typ == nil {
				r.Typ = fn.Signature.Results().At(i).Type()
			}
			if r.Loc == nil {
				r.Typ = fn.Signature.Results().At(i).Type()
			}
			env.vars[rn[i]] = r
			if isErrorType(fn.Signature.Results().At(i).Type()) && i == len(rs)-1 {
				if _, taken := env.vars["err"]; !taken || rn[i] == "err" {
					env.vars["err"] = r
				}
			}
		}
		for _, en := range fc.Ensures {
			if en.Free {
				continue
			}
			g := fv.evalBool(en.E, env)
			fv.addObl(st, "ensures", fmt.Sprintf("%s@path%d", en.Name, fv.paths), g, en.Src, en.Tags)
		}
	}
	fv.execBlock(st, fn.Blocks[0], nil)
	// lemmas: pure implications over the contract vocabulary
	for _, lm := range fc.Lemmas {
		ls := entry.clone()
		g := fv.evalBool(lm.E, fv.envFor(ls))
		fv.addObl(ls, "lemma", lm.Name, g, lm.Src, lm.Tags)
	}
	return
}

func buildSMT(prelude, decls string, o *Obligation) string {
	var b strings.Builder
	b.WriteString("(set-option :smt.mbqi false)\n(set-option :auto_config false)\n")
	b.WriteString(prelude)
	b.WriteString(`(define-fun tdiv ((a Int) (b Int)) Int (ite (>= a 0) (ite (> b 0) (div a b) (- (div a (- b)))) (ite (> b 0) (- (div (- a) b)) (div (- a) (- b)))))
(define-fun tmod ((a Int) (b Int)) Int (- a (* b (tdiv a b))))
(declare-fun shl_u (Int Int) Int)
(declare-fun shr_u (Int Int) Int)
(declare-fun bit_and (Int Int) Int)
(declare-fun bit_or (Int Int) Int)
(declare-fun bit_xor (Int Int) Int)
(declare-fun bit_andnot (Int Int) Int)
`)
	b.WriteString(decls)
	b.WriteString("\n")
	for _, h := range o.Hyps {
		b.WriteString("(assert " + h + ")\n")
	}
	b.WriteString("(assert (not " + o.Goal + "))\n(check-sat)\n")
	return b.String()
}

// discharge runs all obligations in parallel.
func (e *Engine) discharge(obls []*Obligation) {
	parallelDo(len(obls), e.workers, func(i int) {
		o := obls[i]
		name := fmt.Sprintf("%04d_%s_%s", i, shortKey(o.Func), o.Name)
		o.Res, o.All = raceSolvers(e.tmp, name, o.SMT, e.timeout, e.allSolvers, nil)
		if o.Expect == "unsat" && o.Res.Status != "unsat" && o.Res.Status != "sat" {
			// model search: retry with model-based quantifier instantiation
			smt := strings.Replace(o.SMT, "(set-option :smt.mbqi false)\n(set-option :auto_config false)\n", "", 1)
			r, all := raceSolvers(e.tmp, name+"_mbqi", smt, e.timeout, false, []string{"z3-new", "z3"})
			o.All = append(o.All, all...)
			if r.Status == "sat" || r.Status == "unsat" {
				o.Res = r
			}
		}
	})
}

func (o *Obligation) ok() bool {
	if e := o.Expect; e == "sat" {
		// cover checks: sat or unknown (quantifiers) both mean "not refuted"
		return o.Res.Status != "unsat"
	}
	return o.Res.Status == "unsat"
}

func newEngine(repo string) *Engine {
	e := &Engine{repo: repo, fnByID: map[int]*ssa.Function{}, closures: map[string]*closureInfo{}, loops: map[*ssa.Function]map[*ssa.BasicBlock]*loopInfo{},
		notes: map[string]bool{}, inlines: map[string]map[string]bool{}, boxes: map[string]int{}, timeout: 10, workers: 16}
	e.db = newDB()
	e.u = newUniverse(e.db)
	return e
}

// loadContracts reads the contract files of the repository and /verif/contracts.
func (e *Engine) loadContracts(verifDir string) error {
	files := map[string]string{
		filepath.Join(e.repo, "internal/bitpack/contracts_verif.go"): "github.com/parsyl/parquet/internal/bitpack",
		filepath.Join(e.repo, "internal/rle/contracts_verif.go"):     "github.com/parsyl/parquet/internal/rle",
		filepath.Join(e.repo, "contracts_verif.go"):                  "github.com/parsyl/parquet",
		filepath.Join(e.repo, "cmd/parquetgen/gen/contracts_verif.go"): "GEN",
	}
	var names []string
	for f := range files {
		names = append(names, f)
	}
	sort.Strings(names)
	if err := e.db.loadDir(filepath.Join(verifDir, "contracts", "defs"), "spec"); err != nil {
		return err
	}
	if err := e.db.loadDir(filepath.Join(verifDir, "contracts", "trusted"), "trusted"); err != nil {
		return err
	}
	// everything under trusted/ is assumed
	for _, fc := range e.db.Funcs {
		fc.Trusted = true
	}
	for _, f := range names {
		if _, err := os.Stat(f); err != nil {
			continue
		}
		if err := e.db.loadContractFile(f, files[f]); err != nil {
			return err
		}
	}
	return nil
}
