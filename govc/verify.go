package main

// Engine: loading, per-function verification, SMT emission, discharge.

import (
	"fmt"
	"go/types"
	"os"
	"path/filepath"
	"regexp"
	"runtime/debug"
	"sort"
	"strings"
	"sync"
	"time"

	"golang.org/x/tools/go/packages"
	"golang.org/x/tools/go/ssa"
	"golang.org/x/tools/go/ssa/ssautil"
)

type Engine struct {
	repo       string
	genRoot    string // scratch module with generated corpus packages
	prog       *ssa.Program
	pkgs       []*ssa.Package
	db         *DB
	u          *Universe
	fnByID     map[int]*ssa.Function
	closures   map[string]*closureInfo
	loops      map[*ssa.Function]map[*ssa.BasicBlock]*loopInfo
	notes      map[string]bool
	inlines    map[string]map[string]bool
	boxes      map[string]int
	allSafety  bool
	scopePkgs  map[string]bool
	funcs      map[string][]*ssa.Function // contract key -> functions (several for generated corpus)
	mu         sync.Mutex
	tmp        string
	timeout    int
	allSolvers bool
	workers    int
	typeNames  map[string]types.Type
	skipped    []string
	boundedEv  []string
	mutableGlobals map[*ssa.Global]string
	natOK      map[string]bool
}

var posRe = regexp.MustCompile(` @ \d+:\d+`)

// canonicalSSA prints the SSA of a generated function with the package path
// and the record type name abstracted, so copies emitted for different
// struct shapes can be compared.
func (e *Engine) canonicalSSA(fn *ssa.Function) string {
	var b strings.Builder
	fn.WriteTo(&b)
	s := b.String()
	if p := pkgPathOf(fn); p != "" {
		s = strings.ReplaceAll(s, p, "GEN")
		if fn.Pkg != nil {
			s = strings.ReplaceAll(s, fn.Pkg.Pkg.Name()+".", "GEN.")
		}
	}
	for n := range recTypeNames {
		s = strings.ReplaceAll(s, "GEN."+n, "GEN.REC")
		s = strings.ReplaceAll(s, " "+n+")", " REC)")
		s = strings.ReplaceAll(s, " "+n+" ", " REC ")
		s = strings.ReplaceAll(s, "*"+n, "*REC")
	}
	// drop the Location comment line and debug positions (file positions differ)
	s = posRe.ReplaceAllString(s, "")
	var out []string
	for _, l := range strings.Split(s, "\n") {
		if strings.HasPrefix(l, "# Location:") {
			continue
		}
		out = append(out, l)
	}
	return strings.Join(out, "\n")
}

const genModule = "gencorpus"

func (e *Engine) note(s string) {
	e.mu.Lock()
	e.notes[s] = true
	e.mu.Unlock()
}
func (e *Engine) noteInline(caller, callee string) {
	if e.inlines[caller] == nil {
		e.inlines[caller] = map[string]bool{}
	}
	e.inlines[caller][callee] = true
}
func (e *Engine) noteBox(fn string) { e.boxes[fn]++ }

func (e *Engine) normPkgPath(p string) string {
	if strings.HasPrefix(p, genModule+"/") || p == genModule {
		return "GEN"
	}
	return p
}

func (e *Engine) normQual(p *types.Package) string {
	if p == nil {
		return ""
	}
	if e.normPkgPath(p.Path()) == "GEN" {
		return "GEN"
	}
	return pkgAlias(p)
}

func (e *Engine) funcKey(fn *ssa.Function) string {
	if fn.Pkg == nil {
		// synthetic wrappers, instantiations
		if fn.Parent() != nil {
			return e.funcKey(fn.Parent()) + "$" + fn.Name()
		}
		return "?::" + fn.String()
	}
	rel := fn.RelString(fn.Pkg.Pkg)
	return e.normPkgPath(fn.Pkg.Pkg.Path()) + "::" + rel
}

func (e *Engine) ifaceKey(m *types.Func) string {
	// (io.Reader).Read -> io::Reader.Read ; generated -> GEN::Field.Write
	sig := m.Type().(*types.Signature)
	recv := sig.Recv().Type()
	if n, ok := recv.(*types.Named); ok {
		pkg := "builtin"
		if n.Obj().Pkg() != nil {
			pkg = e.normPkgPath(n.Obj().Pkg().Path())
		}
		return pkg + "::" + n.Obj().Name() + "." + m.Name()
	}
	return "?::" + m.FullName()
}

func (e *Engine) contractFor(fn *ssa.Function) *FuncContract {
	k := e.funcKey(fn)
	if fc, ok := e.db.Funcs[k]; ok {
		return fc
	}
	// wildcard contracts (keys with '*'), e.g. GEN::read* for schema-specific generated functions
	for _, pk := range e.db.patternKeys() {
		if globMatch(pk, k) {
			return e.db.Funcs[pk]
		}
	}
	return nil
}

func globMatch(pat, s string) bool {
	parts := strings.Split(pat, "*")
	if !strings.HasPrefix(s, parts[0]) {
		return false
	}
	s = s[len(parts[0]):]
	for i := 1; i < len(parts); i++ {
		p := parts[i]
		if i == len(parts)-1 {
			return strings.HasSuffix(s, p)
		}
		j := strings.Index(s, p)
		if j < 0 {
			return false
		}
		s = s[j+len(p):]
	}
	return s == ""
}

func (e *Engine) inScope(fn *ssa.Function) bool {
	if fn.Pkg == nil {
		if fn.Parent() != nil {
			return e.inScope(fn.Parent())
		}
		return false
	}
	return e.scopePkgs[fn.Pkg.Pkg.Path()]
}

func (e *Engine) fnByTerm(t string) (*ssa.Function, bool) {
	var id int
	if _, err := fmt.Sscanf(t, "%d", &id); err == nil && fmt.Sprint(id) == t {
		f, ok := e.fnByID[id]
		return f, ok
	}
	return nil, false
}

func (e *Engine) typeIDByName(name string) (int, bool) {
	t, ok := e.typeNames[name]
	if !ok {
		return 0, false
	}
	return e.u.typeID(t), true
}

// load builds SSA for the repository packages and (optionally) the generated corpus.
func (e *Engine) load(patterns []string, dir string) error {
	cfg := &packages.Config{Mode: packages.LoadAllSyntax, Dir: dir, BuildFlags: []string{"-tags=verif"},
		Env: append(os.Environ(), "GOFLAGS=-mod=mod", "GOPROXY=off", "GOSUMDB=off", "GOTOOLCHAIN=local")}
	pkgs, err := packages.Load(cfg, patterns...)
	if err != nil {
		return err
	}
	var errs []string
	packages.Visit(pkgs, nil, func(p *packages.Package) {
		for _, er := range p.Errors {
			errs = append(errs, er.Error())
		}
	})
	if len(errs) > 0 {
		return fmt.Errorf("package errors: %s", strings.Join(errs, "; "))
	}
	prog, spkgs := ssautil.AllPackages(pkgs, ssa.InstantiateGenerics|ssa.GlobalDebug)
	prog.Build()
	e.prog = prog
	e.scopePkgs = map[string]bool{}
	for _, p := range spkgs {
		if p == nil {
			continue
		}
		e.pkgs = append(e.pkgs, p)
		path := p.Pkg.Path()
		if strings.HasPrefix(path, "github.com/parsyl/parquet") && !strings.HasPrefix(path, "github.com/parsyl/parquet/schema") || strings.HasPrefix(path, genModule) {
			e.scopePkgs[path] = true
		}
	}
	e.u.isLibType = func(t types.Type) bool {
		if p, ok := t.(*types.Pointer); ok {
			t = p.Elem()
		}
		n, ok := t.(*types.Named)
		return ok && n.Obj().Pkg() != nil && e.scopePkgs[n.Obj().Pkg().Path()]
	}
	// named types for typeid("...")
	e.typeNames = map[string]types.Type{}
	for _, p := range prog.AllPackages() {
		for _, m := range p.Members {
			if t, ok := m.(*ssa.Type); ok {
				q := pkgAlias(p.Pkg) + "." + t.Name()
				e.typeNames[q] = t.Type()
				e.typeNames["*"+q] = types.NewPointer(t.Type())
			}
		}
	}
	// package-level variables that some non-init function in the library stores to
	e.mutableGlobals = map[*ssa.Global]string{}
	for fn := range ssautil.AllFunctions(prog) {
		if !e.inScope(fn) || fn.Name() == "init" || strings.HasPrefix(fn.Name(), "init#") {
			continue
		}
		for _, b := range fn.Blocks {
			for _, in := range b.Instrs {
				if st, ok := in.(*ssa.Store); ok {
					if g := rootGlobal(st.Addr); g != nil {
						e.mutableGlobals[g] = fn.String()
					}
				}
			}
		}
	}
	// index functions by contract key
	e.funcs = map[string][]*ssa.Function{}
	for fn := range ssautil.AllFunctions(prog) {
		if fn.Pkg == nil && fn.Parent() == nil {
			continue
		}
		if fn.Synthetic != "" && !strings.HasPrefix(fn.Synthetic, "package init") {
			// wrappers and thunks are not verified
			if fn.Parent() == nil {
				continue
			}
		}
		k := e.funcKey(fn)
		e.funcs[k] = append(e.funcs[k], fn)
	}
	for _, l := range e.funcs {
		sort.Slice(l, func(i, j int) bool { return l[i].String() < l[j].String() })
	}
	return nil
}

type FuncResult struct {
	Reached     []string
	Key         string
	Fn          string
	Obls        []*Obligation
	Err         string // unsupported / spec error
	Paths       int
	Trusted     []string
	Assumptions []string
	Secs        float64
}

// verifyFunction runs the symbolic executor on fn under contract fc.
func (e *Engine) verifyFunction(fn *ssa.Function, fc *FuncContract) (res *FuncResult) {
	t0 := time.Now()
	res = &FuncResult{Key: fc.Key, Fn: fn.String()}
	fv := &FV{u: e.u, prog: e.prog, fn: fn, fc: fc, bv: fc.Mode == "bv", declS: map[string]bool{}, maxPaths: 20000,
		heapsUsed: map[string]string{}, trusted: map[string]bool{}, assumptions: map[string]bool{}, eng: e, reached: map[string]bool{}}
	defer func() {
		if r := recover(); r != nil {
			switch x := r.(type) {
			case unsupported:
				res.Err = "outside accepted subset: " + string(x)
			case specFail:
				res.Err = "contract error: " + string(x)
			default:
				res.Err = fmt.Sprintf("internal error: %v\n%s", r, debug.Stack())
			}
		}
		res.Obls = fv.obls
		res.Paths = fv.paths
		for k := range fv.trusted {
			res.Trusted = append(res.Trusted, k)
		}
		sort.Strings(res.Trusted)
		for k := range fv.assumptions {
			res.Assumptions = append(res.Assumptions, k)
		}
		// every clause that is assumed and never checked (mechanical scan of the contract used)
		for _, c := range fc.Requires {
			if c.Free {
				res.Assumptions = append(res.Assumptions, fmt.Sprintf("free-requires of %s (assumed, checked at no call site): %s", fc.Key, c.Src))
			}
		}
		for _, c := range fc.Ensures {
			if c.Free {
				res.Assumptions = append(res.Assumptions, fmt.Sprintf("free-ensures of %s (assumed by callers, not proved): %s", fc.Key, c.Src))
			}
		}
		for li, lc := range fc.Loops {
			if lc == nil {
				continue
			}
			for _, c := range lc.Invariants {
				if c.Free {
					res.Assumptions = append(res.Assumptions, fmt.Sprintf("free-invariant of %s loop#%d (assumed at the loop head, not proved): %s", fc.Key, li, c.Src))
				}
			}
		}
		for k := range fv.reached {
			res.Reached = append(res.Reached, k)
		}
		sort.Strings(res.Reached)
		sort.Strings(res.Assumptions)
		// attach SMT text
		pre := e.u.prelude(nil, e.db, nil)
		decls := strings.Join(fv.decls, "\n")
		for _, o := range fv.obls {
			o.SMT = buildSMT(pre, decls, o)
			o.Bytes = len(o.SMT)
			o.Query = fv.query
		}
		res.Secs = time.Since(t0).Seconds()
	}()
	if fn.Blocks == nil {
		res.Err = "no body"
		return
	}
	fv.declare("alloc!entry", "Int")
	st := &State{heaps: map[string]string{}, ghost: map[string]Val{}, alloc: "alloc!entry"}
	st.assume("(> alloc!entry 0)")
	fr := &frame{fn: fn, vals: map[ssa.Value]Val{}, fc: fc, params: map[string]Val{}, names: map[string]Val{}}
	st.fr = fr
	bindParam := func(v ssa.Value, name string) {
		s := e.u.sortOf(v.Type(), fv.bv)
		pv := Val{T: "p_" + mangle(name), S: s, Typ: v.Type()}
		fv.declare(pv.T, s)
		fr.vals[v] = pv
		fr.params[name] = pv
		fr.names[name] = pv
		fv.assumeWF(st, pv)
		switch {
		case s == "Slice":
			fv.query = append(fv.query, modelQuery{name + ".len", "(slen " + pv.T + ")"})
			if sl, ok := v.Type().Underlying().(*types.Slice); ok {
				es := e.u.sortOf(sl.Elem(), fv.bv)
				if es == "Int" || isBV(es) || es == "Bool" {
					h := fv.heap(st, "(Array Int "+es+")")
					for i := 0; i < 16; i++ {
						fv.query = append(fv.query, modelQuery{fmt.Sprintf("%s[%d]", name, i), fmt.Sprintf("(select (select %s (sref %s)) (+ (soff %s) %d))", h, pv.T, pv.T, i)})
					}
				}
			}
		case s == "Int" || isBV(s) || s == "Bool" || isFP(s):
			fv.query = append(fv.query, modelQuery{name, pv.T})
		}
	}
	for _, f := range fn.FreeVars {
		bindParam(f, f.Name())
	}
	for i, p := range fn.Params {
		n := p.Name()
		if n == "" || n == "_" {
			n = fmt.Sprintf("arg%d", i)
		}
		bindParam(p, n)
		if fc.Refines == "functype" {
			fr.params[fmt.Sprintf("arg%d", i)] = fr.params[n]
			if i == 0 {
				self := fv.funcVal(fn)
				if len(fn.FreeVars) > 0 {
					c := fv.fresh("selfclo", "Int")
					st.assume(fmt.Sprintf("(= (fn_of %s) %s)", c, self.T))
					if fvv, ok := fr.vals[fn.FreeVars[0]]; ok && fvv.S == "Int" {
						pt, isPtr := fn.FreeVars[0].Type().Underlying().(*types.Pointer)
						if isPtr && readOnlyFreeVar(fn) && fv.u.sortOf(pt.Elem(), fv.bv) == "Int" {
							// captured by reference, only read: the closure argument is the cell's value
							st.assume(fmt.Sprintf("(= (clo_arg0 %s) (select %s %s))", c, fv.heap(st, "Int"), fvv.T))
						} else {
							st.assume(fmt.Sprintf("(= (clo_arg0 %s) %s)", c, fvv.T))
						}
					}
					self.T = c
				}
				fr.params["self"] = self
			}
		}
		if fc.Refines == "iface" {
			if i == 0 {
				// the interface value wrapping the receiver
				pv := fr.params[n]
				fr.params["self"] = Val{T: fmt.Sprintf("(mk-iface %d %s)", e.u.typeID(p.Type()), pv.T), S: "Iface", Typ: fc.IfaceType}
			} else if i-1 < len(fc.ParamNames) {
				fr.params[fc.ParamNames[i-1]] = fr.params[n]
			}
		}
	}
	if _, ok := e.db.GGlobal["relArr"]; ok {
		// nothing that is not allocated yet has been handed to the pool
		fv.declare("gg_relArr!0", "(Array Int Bool)")
		st.assume("(forall ((r Int)) (! (=> (> r alloc!entry) (not (select gg_relArr!0 r))) :pattern ((select gg_relArr!0 r))))")
	}
	env := fv.envFor(st)
	env.old = st
	for _, r := range fc.Requires {
		fv.assumeSpec(st, r.E, env)
	}
	// cover: preconditions satisfiable
	o := &Obligation{Func: fc.Key, Name: "cover:requires", Kind: "cover", Hyps: append([]string(nil), st.pc...), Goal: "false", Expect: "sat", Src: "preconditions are satisfiable"}
	fv.obls = append(fv.obls, o)
	fv.computeFrame(st, env)
	entry := st.clone()
	fr.entry = entry
	st.fr.entry = entry
	for _, ga := range fc.GhostEntry {
		fv.ghostAssign(st, ga, env)
	}
	// case splits requested by the contract: verify the body once per case
	starts := []*State{st}
	for _, sp := range fc.Split {
		se, err := parseSpecExpr(sp)
		if err != nil {
			panic(specFail(err.Error()))
		}
		var next []*State
		for _, s0 := range starts {
			c := fv.evalBool(se, fv.envFor(s0))
			s1 := s0.clone()
			s0.assume(c)
			s1.assume("(not " + c + ")")
			next = append(next, s0, s1)
		}
		starts = next
	}
	rn := resultNames(fn.Signature.Results())
	fr.ret = func(st *State, rs []Val) {
		fv.paths++
		if fv.paths > fv.maxPaths {
			fv.unsupportedf("more than %d paths", fv.maxPaths)
		}
		env := fv.envFor(st)
		env.names = nil // locals are out of scope; only params/results
		for i, r := range rs {
			if r.Loc == nil && r.Typ == nil {
				r.Typ = fn.Signature.Results().At(i).Type()
			}
			if r.Loc == nil {
				r.Typ = fn.Signature.Results().At(i).Type()
			}
			env.vars[rn[i]] = r
			env.vars[fmt.Sprintf("res%d", i)] = r // positional alias, also for named results
			if len(rs) == 1 {
				env.vars["res"] = r
			}
			if isErrorType(fn.Signature.Results().At(i).Type()) && i == len(rs)-1 {
				if _, taken := env.vars["err"]; !taken || rn[i] == "err" {
					env.vars["err"] = r
				}
			}
		}
		// vacuity guard: this return path must be reachable under the assumptions made so far
		fv.obls = append(fv.obls, &Obligation{Func: fc.Key, Name: fmt.Sprintf("cover:path%d", fv.paths), Kind: "pathcover", Hyps: append([]string(nil), st.pc...), Goal: "false", Expect: "sat", Src: "return path reachable"})
		for _, ga := range fc.GhostExit {
			fv.ghostAssign(st, ga, env)
		}
		for _, en := range fc.Ensures {
			if en.Free {
				continue
			}
			g := fv.evalGoal(st, en.E, env, 0)
			fv.addObl(st, "ensures", fmt.Sprintf("%s@path%d", en.Name, fv.paths), g, en.Src, en.Tags)
		}
	}
	for _, s0 := range starts {
		s0.fr.ret = fr.ret
		s0.fr.entry = entry
		fv.execBlock(s0, fn.Blocks[0], nil)
	}
	// lemmas: pure implications over the contract vocabulary
	for _, lm := range fc.Lemmas {
		ls := entry.clone()
		g := fv.evalBool(lm.E, fv.envFor(ls))
		fv.addObl(ls, "lemma", lm.Name, g, lm.Src, lm.Tags)
	}
	return
}

func buildSMT(prelude, decls string, o *Obligation) string {
	var b strings.Builder
	b.WriteString("(set-option :smt.mbqi false)\n(set-option :auto_config false)\n")
	b.WriteString(prelude)
	b.WriteString(`(define-fun tdiv ((a Int) (b Int)) Int (ite (>= a 0) (ite (> b 0) (div a b) (- (div a (- b)))) (ite (> b 0) (- (div (- a) b)) (div (- a) (- b)))))
(define-fun tmod ((a Int) (b Int)) Int (- a (* b (tdiv a b))))
(declare-fun shl_u (Int Int) Int)
(declare-fun shr_u (Int Int) Int)
(declare-fun bit_and (Int Int) Int)
(declare-fun bit_or (Int Int) Int)
(declare-fun bit_xor (Int Int) Int)
(declare-fun bit_andnot (Int Int) Int)
(declare-fun fn_of (Int) Int)
(declare-fun clo_arg0 (Int) Int)
(declare-fun rtype (Int) Int)
(declare-fun xtr (Int Int Int) Int)
(declare-fun cnt_lt ((Array Int Int) Int Int Int) Int)
`)
	b.WriteString(decls)
	b.WriteString("\n")
	for _, h := range o.Hyps {
		b.WriteString("(assert " + strings.TrimPrefix(h, contentTag) + ")\n")
	}
	b.WriteString("(assert (not " + o.Goal + "))\n(check-sat)\n")
	return pruneDecls(b.String())
}

// pruneDecls drops constant and datatype declarations nothing refers to. They are harmless
// logically, but a record type with float fields that the proof never touches pulls the
// floating-point theory into the query and changes the solvers' quantifier strategy: the same
// obligation was then proved for one corpus shape and "unknown" for another.
func pruneDecls(smt string) string {
	lines := strings.Split(smt, "\n")
	isID := func(c byte) bool {
		return c == '_' || c == '!' || c == '.' || c == '$' || (c >= '0' && c <= '9') || (c >= 'a' && c <= 'z') || (c >= 'A' && c <= 'Z')
	}
	tokens := func(l string, f func(t string)) {
		i := 0
		for i < len(l) {
			if !isID(l[i]) {
				i++
				continue
			}
			j := i
			for j < len(l) && isID(l[j]) {
				j++
			}
			f(l[i:j])
			i = j
		}
	}
	count := map[string]int{}
	for _, l := range lines {
		tokens(l, func(t string) { count[t]++ })
	}
	dead := make([]bool, len(lines))
	for pass := 0; pass < 6; pass++ {
		changed := false
		for i, l := range lines {
			if dead[i] {
				continue
			}
			drop := false
			switch {
			case strings.HasPrefix(l, "(declare-const "):
				rest := l[len("(declare-const "):]
				if sp := strings.IndexByte(rest, ' '); sp > 0 && count[rest[:sp]] == 1 {
					drop = true
				}
			case strings.HasPrefix(l, "(declare-datatypes ((S_"):
				// every name the declaration introduces occurs only in the declaration itself
				own := map[string]int{}
				tokens(l, func(t string) { own[t]++ })
				drop = true
				for t, n := range own {
					if (strings.HasPrefix(t, "S_") || strings.HasPrefix(t, "mk_S_")) && count[t] != n {
						// used elsewhere -- unless it is another sort this one merely mentions
						if strings.HasPrefix(l, "(declare-datatypes (("+t+" ") || strings.HasPrefix(t, "mk_S_") || strings.Contains(l, "("+t+" ") {
							drop = false
							break
						}
					}
				}
			}
			if drop {
				dead[i] = true
				changed = true
				tokens(l, func(t string) { count[t]-- })
			}
		}
		if !changed {
			break
		}
	}
	var out []string
	for i, l := range lines {
		if !dead[i] {
			out = append(out, l)
		}
	}
	return strings.Join(out, "\n")
}

// dischargeLight: one race per obligation, no further stages (used for the retry on identical copies).
func (e *Engine) dischargeLight(obls []*Obligation) {
	parallelDo(len(obls), e.workers, func(i int) {
		o := obls[i]
		o.Res, o.All = raceSolvers(e.tmp, fmt.Sprintf("copy%04d_%s_%s", i, shortKey(o.Func), o.Name), o.SMT, e.timeout, e.allSolvers, nil)
	})
}

// discharge runs all obligations in parallel.
func (e *Engine) discharge(obls []*Obligation) {
	parallelDo(len(obls), e.workers, func(i int) {
		o := obls[i]
		name := fmt.Sprintf("%04d_%s_%s", i, shortKey(o.Func), o.Name)
		if o.Expect == "sat" {
			// cover check: only a refutation (unsat) matters; one solver, short limit
			o.Res, o.All = raceSolvers(e.tmp, name, o.SMT, 2, false, []string{"z3-new"})
			return
		}
		o.Res, o.All = raceSolvers(e.tmp, name, o.SMT, e.timeout, e.allSolvers, nil)
		if o.Expect == "unsat" && o.Res.Status != "unsat" && o.Res.Status != "sat" {
			// model search: retry with model-based quantifier instantiation
			smt := strings.Replace(o.SMT, "(set-option :smt.mbqi false)\n(set-option :auto_config false)\n", "", 1)
			r, all := raceSolvers(e.tmp, name+"_mbqi", smt, 4, false, []string{"z3-new"})
			o.All = append(o.All, all...)
			if r.Status == "sat" || r.Status == "unsat" {
				o.Res = r
			}
		}
	})
	// conjunctive goals the solvers answer "unknown" on as a whole (quantifier instantiation gives up
	// on the large term) are retried conjunct by conjunct; all pieces unsat proves the goal
	var und []*Obligation
	for _, o := range obls {
		if o.Expect == "unsat" && o.Res.Status != "unsat" && o.Res.Status != "sat" && len(und) < 24 {
			und = append(und, o)
		}
	}
	parallelDo(len(und), 4, func(i int) {
		o := und[i]
		pieces := splitGoal(o.Goal)
		tail := "(assert (not " + o.Goal + "))\n(check-sat)\n"
		if len(pieces) < 2 || len(pieces) > 32 || !strings.HasSuffix(o.SMT, tail) {
			if os.Getenv("GOVC_DEBUG") != "" {
				fmt.Fprintf(os.Stderr, "split: %s %s: %d pieces, suffix=%v\n", o.Func, o.Name, len(pieces), strings.HasSuffix(o.SMT, tail))
			}
			return
		}
		head := strings.TrimSuffix(o.SMT, tail)
		var total float64
		for k, pc := range pieces {
			r, all := raceSolvers(e.tmp, fmt.Sprintf("split%02d_%02d_%s_%s", i, k, shortKey(o.Func), o.Name), head+"(assert (not "+pc+"))\n(check-sat)\n", e.timeout, false, nil)
			o.All = append(o.All, all...)
			if r.Status != "unsat" {
				if os.Getenv("GOVC_DEBUG") != "" {
					fmt.Fprintf(os.Stderr, "split: %s %s: piece %d/%d %s\n", o.Func, o.Name, k, len(pieces), r.Status)
				}
				return
			}
			total += r.Secs
		}
		o.Res = solverRes{Solver: fmt.Sprintf("split(%d)", len(pieces)), Status: "unsat", Secs: total}
	})
	// second chance for obligations that only ran out of time (a loaded machine must not turn a
	// provable obligation into an alarm): a few at a time, four times the limit
	var late []*Obligation
	for _, o := range obls {
		if o.Expect != "unsat" || o.Res.Status == "unsat" || o.Res.Status == "sat" {
			continue
		}
		timedOut := false
		for _, r := range o.All {
			if r.Status == "timeout" {
				timedOut = true
			}
		}
		if timedOut && len(late) < 16 {
			late = append(late, o)
		}
	}
	parallelDo(len(late), 3, func(i int) {
		o := late[i]
		r, all := raceSolvers(e.tmp, fmt.Sprintf("late%02d_%s_%s", i, shortKey(o.Func), o.Name), o.SMT, 4*e.timeout, false, nil)
		o.All = append(o.All, all...)
		if r.Status == "sat" || r.Status == "unsat" {
			o.Res = r
		}
	})
}

func (o *Obligation) ok() bool {
	if e := o.Expect; e == "sat" {
		// cover checks: sat or unknown (quantifiers) both mean "not refuted"
		return o.Res.Status != "unsat"
	}
	return o.Res.Status == "unsat"
}

func newEngine(repo string) *Engine {
	e := &Engine{repo: repo, fnByID: map[int]*ssa.Function{}, closures: map[string]*closureInfo{}, loops: map[*ssa.Function]map[*ssa.BasicBlock]*loopInfo{},
		notes: map[string]bool{}, inlines: map[string]map[string]bool{}, boxes: map[string]int{}, timeout: 10, workers: 16}
	e.db = newDB()
	e.u = newUniverse(e.db)
	return e
}

// loadContracts reads the contract files of the repository and /verif/contracts.
func (e *Engine) loadContracts(verifDir string) error {
	files := map[string]string{
		filepath.Join(e.repo, "internal/bitpack/contracts_verif.go"):   "github.com/parsyl/parquet/internal/bitpack",
		filepath.Join(e.repo, "internal/rle/contracts_verif.go"):       "github.com/parsyl/parquet/internal/rle",
		filepath.Join(e.repo, "contracts_verif.go"):                    "github.com/parsyl/parquet",
		filepath.Join(e.repo, "cmd/parquetgen/gen/contracts_verif.go"): "GEN",
	}
	var names []string
	for f := range files {
		names = append(names, f)
	}
	sort.Strings(names)
	if err := e.db.loadDir(filepath.Join(verifDir, "contracts", "defs"), "spec"); err != nil {
		return err
	}
	if err := e.db.loadDir(filepath.Join(verifDir, "contracts", "trusted"), "trusted"); err != nil {
		return err
	}
	// everything under trusted/ is assumed
	for _, fc := range e.db.Funcs {
		fc.Trusted = true
	}
	for _, f := range names {
		if _, err := os.Stat(f); err != nil {
			continue
		}
		if err := e.db.loadContractFile(f, files[f]); err != nil {
			return err
		}
	}
	return nil
}

// ifaceInScope: the interface the method belongs to is declared in a package under verification.
func (e *Engine) ifaceInScope(m *types.Func) bool {
	sig := m.Type().(*types.Signature)
	if n, ok := sig.Recv().Type().(*types.Named); ok && n.Obj().Pkg() != nil {
		return e.scopePkgs[n.Obj().Pkg().Path()]
	}
	return false
}

type workItem struct {
	fn *ssa.Function
	fc *FuncContract
}

// refinementsOf returns the functions that must satisfy a functype or
// in-scope interface contract, each with a synthesized contract.
func (e *Engine) refinementsOf(kind, key string) []workItem {
	var out []workItem
	switch kind {
	case "functype":
		base := e.db.FnTypes[key]
		if base == nil {
			return nil
		}
		var keys []string
		for k := range e.funcs {
			keys = append(keys, k)
		}
		sort.Strings(keys)
		for _, k := range keys {
			for _, fn := range e.funcs[k] {
				if fn.Blocks == nil || !e.inScope(fn) || fn.Signature.Recv() != nil {
					continue
				}
				if sigKey(fn.Signature, e.normQual) != key {
					continue
				}
				c := *base
				c.Key = k
				c.Trusted = false
				c.Refines = "functype"
				c.RefOf = key
				c.Loops = map[int]*LoopContract{}
				if own := e.db.Funcs[k]; own != nil {
					c.Loops = own.Loops
				}
				out = append(out, workItem{fn, &c})
			}
		}
	case "iface":
		base := e.db.Ifaces[key]
		if base == nil {
			return nil
		}
		// find the interface type and method name
		i := strings.LastIndex(key, ".")
		mname := key[i+1:]
		var keys []string
		for k := range e.funcs {
			keys = append(keys, k)
		}
		sort.Strings(keys)
		for _, k := range keys {
			for _, fn := range e.funcs[k] {
				if fn.Blocks == nil || !e.inScope(fn) || fn.Signature.Recv() == nil || fn.Name() != mname || fn.Synthetic != "" {
					continue
				}
				rt := fn.Signature.Recv().Type()
				// which in-scope interface named by key does rt implement?
				it := e.ifaceTypeByKey(key, fn)
				if it == nil || !types.Implements(rt, it.Underlying().(*types.Interface)) {
					continue
				}
				if _, isPtr := rt.Underlying().(*types.Pointer); !isPtr {
					continue
				}
				c := *base
				c.Key = k
				c.Trusted = false
				c.Refines = "iface"
				c.RefOf = key
				c.IfaceType = it
				c.Loops = map[int]*LoopContract{}
				if own := e.db.Funcs[k]; own != nil {
					c.Loops = own.Loops
					// the function's own preconditions restrict when the method may be invoked at all;
					// they are NOT available to an interface caller, so they are not assumed here.
				}
				// method parameter names as in the interface declaration
				if obj, _, _ := types.LookupFieldOrMethod(it, true, nil, mname); obj != nil {
					sig := obj.Type().(*types.Signature)
					for j := 0; j < sig.Params().Len(); j++ {
						n := sig.Params().At(j).Name()
						if n == "" || n == "_" {
							n = fmt.Sprintf("arg%d", j)
						}
						c.ParamNames = append(c.ParamNames, n)
					}
				}
				out = append(out, workItem{fn, &c})
			}
		}
	}
	return out
}

// ifaceTypeByKey finds the named interface type for an iface contract key,
// in the package of fn for generated code.
func (e *Engine) ifaceTypeByKey(key string, fn *ssa.Function) types.Type {
	i := strings.Index(key, "::")
	j := strings.LastIndex(key, ".")
	pkgPath, tname := key[:i], key[i+2:j]
	for _, p := range e.prog.AllPackages() {
		pp := e.normPkgPath(p.Pkg.Path())
		if pp != pkgPath {
			continue
		}
		if pp == "GEN" && (fn.Pkg == nil || fn.Pkg.Pkg != p.Pkg) {
			continue
		}
		if t, ok := p.Members[tname].(*ssa.Type); ok {
			return t.Type()
		}
	}
	return nil
}

// rootGlobal: the package-level variable an address is derived from (through field/index addressing), if any.
func rootGlobal(v ssa.Value) *ssa.Global {
	for i := 0; i < 10; i++ {
		switch x := v.(type) {
		case *ssa.Global:
			return x
		case *ssa.FieldAddr:
			v = x.X
		case *ssa.IndexAddr:
			v = x.X
		default:
			return nil
		}
	}
	return nil
}

// splitGoal breaks a goal of the shape (=> a1 (=> a2 ... (and c1 c2 ...))) into the goals
// (=> a1 (=> a2 ... ci)); proving every piece proves the goal. Returns nil if there is nothing to split.
func splitGoal(g string) []string {
	var ante []string
	cur := strings.TrimSpace(g)
	for strings.HasPrefix(cur, "(=> ") {
		as := sexprArgs(cur)
		if len(as) != 2 {
			break
		}
		ante = append(ante, as[0])
		cur = as[1]
	}
	var conj []string
	var flat func(s string)
	flat = func(s string) {
		if strings.HasPrefix(s, "(and ") {
			for _, a := range sexprArgs(s) {
				flat(a)
			}
			return
		}
		conj = append(conj, s)
	}
	flat(cur)
	if len(conj) < 2 {
		return nil
	}
	out := make([]string, 0, len(conj))
	for _, c := range conj {
		for i := len(ante) - 1; i >= 0; i-- {
			c = "(=> " + ante[i] + " " + c + ")"
		}
		out = append(out, c)
	}
	return out
}

// sexprArgs returns the top-level arguments of "(op a b ...)".
func sexprArgs(s string) []string {
	s = strings.TrimSpace(s)
	if len(s) < 2 || s[0] != '(' || s[len(s)-1] != ')' {
		return nil
	}
	in := s[1 : len(s)-1]
	sp := strings.IndexAny(in, " \n\t")
	if sp < 0 {
		return nil
	}
	in = in[sp:]
	var out []string
	depth, start := 0, -1
	inBar := false
	for i := 0; i < len(in); i++ {
		c := in[i]
		if inBar {
			if c == '|' {
				inBar = false
			}
			continue
		}
		switch {
		case c == '|':
			inBar = true
			if depth == 0 && start < 0 {
				start = i
			}
		case c == '(':
			if depth == 0 && start < 0 {
				start = i
			}
			depth++
		case c == ')':
			depth--
			if depth == 0 {
				out = append(out, in[start:i+1])
				start = -1
			}
		case c == ' ' || c == '\n' || c == '\t':
			if depth == 0 && start >= 0 {
				out = append(out, in[start:i])
				start = -1
			}
		default:
			if depth == 0 && start < 0 {
				start = i
			}
		}
	}
	if start >= 0 {
		out = append(out, in[start:])
	}
	return out
}
