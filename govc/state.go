package main

import (
	"fmt"
	"go/types"
	"strings"

	"golang.org/x/tools/go/ssa"
)

// Obligation is one verification condition.
type Obligation struct {
	Func   string
	Name   string   // e.g. ensures#2@ret3, safe:index@t14, pre(callee)#1@t7
	Kind   string   // ensures | invariant | pre | safety | lemma | cover | frame
	Tags   []string // property tags
	Hyps   []string
	Goal   string
	Decls  []string // shared pointer to function decl list snapshot
	Src    string
	Pos    string
	Res    solverRes
	All    []solverRes
	SMT    string
	Expect string // "unsat" normally; "sat" for cover checks
	Bytes  int
	Free   bool
	Query  []modelQuery
}

type frame struct {
	fn     *ssa.Function
	vals   map[ssa.Value]Val
	defers []*ssa.Defer
	ret    func(st *State, results []Val) // continuation at return
	depth  int
	entry  *State // state at function entry (for old())
	fc     *FuncContract
	params map[string]Val
	names  map[string]Val
	boxes  []boxed
	variants map[*ssa.BasicBlock]string
	pendingName string
	allocs []localAlloc
	parent *frame
}

type State struct {
	heaps  map[string]string // heap key -> current term (constant name)
	ghost  map[string]Val    // ghost globals
	pc     []string          // assumptions so far
	fr     *frame
	alloc  string // allocation counter term
	steps  int
	havocAll int
	qfacts []qfact
	idx    []string
	pendingGhost [][2]string
}

func (s *State) clone() *State {
	n := &State{heaps: make(map[string]string, len(s.heaps)), ghost: make(map[string]Val, len(s.ghost)), alloc: s.alloc, steps: s.steps, havocAll: s.havocAll}
	for k, v := range s.heaps {
		n.heaps[k] = v
	}
	for k, v := range s.ghost {
		n.ghost[k] = v
	}
	n.pc = append([]string(nil), s.pc...)
	n.qfacts = append([]qfact(nil), s.qfacts...)
	n.idx = append([]string(nil), s.idx...)
	// frames: copy value maps (shallow), whole parent chain
	if s.fr != nil {
		n.fr = s.fr.clone()
		for f := n.fr; f.parent != nil; f = f.parent {
			f.parent = f.parent.clone()
		}
	}
	return n
}

func (f *frame) clone() *frame {
	n := *f
	n.vals = make(map[ssa.Value]Val, len(f.vals))
	for k, v := range f.vals {
		n.vals[k] = v
	}
	n.defers = append([]*ssa.Defer(nil), f.defers...)
	n.names = make(map[string]Val, len(f.names))
	for k, v := range f.names {
		n.names[k] = v
	}
	n.boxes = append([]boxed(nil), f.boxes...)
	n.allocs = append([]localAlloc(nil), f.allocs...)
	if f.variants != nil {
		n.variants = map[*ssa.BasicBlock]string{}
		for k, v := range f.variants {
			n.variants[k] = v
		}
	}
	return &n
}

func (s *State) assume(f string) {
	if f == "true" {
		return
	}
	s.pc = append(s.pc, f)
}

// FuncVerifier holds per-function verification state.
type FV struct {
	intW map[string]int // integer-mode bit widths of extract/concat terms
	u      *Universe
	prog   *ssa.Program
	fn     *ssa.Function
	fc     *FuncContract
	tracked map[string]int
	bv     bool
	decls  []string
	declS  map[string]bool
	nfresh int
	obls   []*Obligation
	paths  int
	maxPaths int
	errs   []string
	heapsUsed map[string]string // heap key -> sort
	trusted map[string]bool // trusted callees reached
	assumptions map[string]bool
	eng    *Engine
	loopIdx map[*ssa.BasicBlock]int
	loopBlocks map[*ssa.BasicBlock]map[*ssa.BasicBlock]bool
	curTags []string
	coverDone map[string]bool
	query  []modelQuery
	frame  *frameSet
	reached map[string]bool // contracts relied upon: "func:K", "iface:K", "functype:K"
	nTouch int
	nQuick int
}

func (fv *FV) fresh(prefix, sort string) string {
	fv.nfresh++
	n := fmt.Sprintf("%s!%d", mangle(prefix), fv.nfresh)
	fv.declare(n, sort)
	return n
}

func (fv *FV) declare(name, sort string) {
	if fv.declS[name] {
		return
	}
	fv.declS[name] = true
	fv.decls = append(fv.decls, fmt.Sprintf("(declare-const %s %s)", name, sort))
}

// define introduces a named constant equal to term (keeps terms small, models readable)
func (fv *FV) define(st *State, prefix, sort, term string) string {
	if len(term) < 24 && !strings.Contains(term, " ") {
		return term
	}
	n := fv.fresh(prefix, sort)
	st.assume(fmt.Sprintf("(= %s %s)", n, term))
	return n
}

func (fv *FV) heap(st *State, sort string) string { return fv.heapK(st, sort, sort) }

func (fv *FV) heapK(st *State, key, sort string) string {
	if h, ok := st.heaps[key]; ok {
		return h
	}
	// first use: the entry heap, shared by all paths
	n := heapName(key) + "!0"
	if !fv.declS[n] {
		fv.declare(n, "(Array Int "+sort+")")
		fv.entryHeapWF(n, sort)
	}
	fv.heapsUsed[key] = sort
	st.heaps[key] = n
	return n
}

func (fv *FV) setHeap(st *State, sort, term string) { fv.setHeapK(st, sort, sort, term) }

func (fv *FV) setHeapK(st *State, key, sort, term string) {
	n := fv.fresh(heapName(key), "(Array Int "+sort+")")
	st.assume(fmt.Sprintf("(= %s %s)", n, term))
	fv.heapsUsed[key] = sort
	st.heaps[key] = n
}

func (fv *FV) havocHeap(st *State, key string) string {
	sort, ok := fv.heapsUsed[key]
	if !ok {
		sort = key
	}
	n := fv.fresh(heapName(key), "(Array Int "+sort+")")
	fv.heapsUsed[key] = sort
	st.heaps[key] = n
	return n
}

// ---- locations

func (fv *FV) ptrLoc(v Val) *Loc {
	if v.Loc != nil {
		return v.Loc
	}
	pt, ok := v.Typ.Underlying().(*types.Pointer)
	if !ok {
		panic(unsupported("ptrLoc on non-pointer " + v.Typ.String()))
	}
	return &Loc{heap: fv.u.sortOf(pt.Elem(), fv.bv), ref: v.T, typ: pt.Elem()}
}

func (fv *FV) load(st *State, l *Loc) string {
	t := fmt.Sprintf("(select %s %s)", fv.heap(st, l.heap), l.ref)
	for _, s := range l.path {
		if s.field >= 0 {
			si := fv.u.structs[s.ssort]
			t = fmt.Sprintf("(%s %s)", si.Fields[s.field], t)
		} else {
			t = fmt.Sprintf("(select %s %s)", t, s.idx)
		}
	}
	return t
}

func (fv *FV) locSort(l *Loc) string {
	if len(l.path) == 0 {
		return l.heap
	}
	return l.path[len(l.path)-1].sort
}

func (fv *FV) updPath(old string, path []step, v string) string {
	if len(path) == 0 {
		return v
	}
	s := path[0]
	if s.field >= 0 {
		si := fv.u.structs[s.ssort]
		var a []string
		for i, f := range si.Fields {
			cur := fmt.Sprintf("(%s %s)", f, old)
			if i == s.field {
				a = append(a, fv.updPath(cur, path[1:], v))
			} else {
				a = append(a, cur)
			}
		}
		return "(" + si.Ctor + " " + strings.Join(a, " ") + ")"
	}
	cur := fmt.Sprintf("(select %s %s)", old, s.idx)
	return fmt.Sprintf("(store %s %s %s)", old, s.idx, fv.updPath(cur, path[1:], v))
}

func (fv *FV) store(st *State, l *Loc, v string) { fv.storeUnless(st, l, v, "") }

// storeUnless: a store that is a no-op when skip holds (copy-out of an unmodified box).
func (fv *FV) storeUnless(st *State, l *Loc, v string, skip string) {
	fv.touchUnless(st, l.heap, l.ref, "store", skip)
	h := fv.heap(st, l.heap)
	var nv string
	if len(l.path) == 0 {
		nv = v
	} else {
		root := fv.define(st, "root", l.heap, fmt.Sprintf("(select %s %s)", h, l.ref))
		nv = fv.updPath(root, l.path, v)
	}
	fv.setHeap(st, l.heap, fmt.Sprintf("(store %s %s %s)", h, l.ref, nv))
}

// range facts for integer typed values (int mode)
func (fv *FV) rangeFact(t string, typ types.Type) string {
	if fv.bv {
		return "true"
	}
	b, ok := typ.Underlying().(*types.Basic)
	if !ok || b.Info()&types.IsInteger == 0 {
		return "true"
	}
	w, signed := intWidth(b)
	lo, hi := typeRange(w, signed)
	return fmt.Sprintf("(and (<= %s %s) (<= %s %s))", lo, t, t, hi)
}

func typeRange(w int, signed bool) (string, string) {
	pow := func(n int) string {
		x := "1"
		// big powers as decimal strings
		b := newBig(1)
		b.Lsh(b, uint(n))
		x = b.String()
		return x
	}
	if signed {
		p := pow(w - 1)
		b := newBig(1)
		b.Lsh(b, uint(w-1))
		b.Sub(b, newBig(1))
		return "(- " + p + ")", b.String()
	}
	b := newBig(1)
	b.Lsh(b, uint(w))
	b.Sub(b, newBig(1))
	return "0", b.String()
}

// wfCond: every reference held in a value of the given sort is at most bound.
// Only struct sorts, slices and interfaces are covered (a bare Int may be a
// number or a pointer, so it is left unconstrained unless the Go type is known).
func (fv *FV) wfCond(term, sort string, bound string, depth int) []string {
	if depth > 4 {
		return nil
	}
	switch sort {
	case "Slice":
		// a slice stored in the heap is as well-formed as one held in a variable
		return []string{fmt.Sprintf("(<= (sref %s) %s)", term, bound), fmt.Sprintf("(<= 0 (sref %s))", term),
			fmt.Sprintf("(<= 0 (slen %s))", term), fmt.Sprintf("(<= (slen %s) (scap %s))", term, term), fmt.Sprintf("(<= 0 (soff %s))", term)}
	case "Iface":
		return []string{fmt.Sprintf("(<= (ival %s) %s)", term, bound)}
	}
	if si, ok := fv.u.structs[sort]; ok {
		var out []string
		for i, f := range si.Fields {
			ft := si.T.Field(i).Type()
			sub := fmt.Sprintf("(%s %s)", f, term)
			switch ft.Underlying().(type) {
			case *types.Pointer, *types.Map:
				out = append(out, fmt.Sprintf("(<= %s %s)", sub, bound), fmt.Sprintf("(<= 0 %s)", sub))
				if pt, ok := ft.Underlying().(*types.Pointer); ok {
					if tn := fv.trackedName(pt.Elem()); tn != "" {
						out = append(out, fmt.Sprintf("(or (= %s 0) (= (rtype %s) %d))", sub, sub, fv.tracked[tn]))
					}
				}
			default:
				out = append(out, fv.wfCond(sub, si.FSorts[i], bound, depth+1)...)
			}
		}
		return out
	}
	return nil
}

// entryHeapWF: objects that exist at function entry only reference objects that exist at entry.
func (fv *FV) entryHeapWF(h, sort string) {
	if conds := fv.wfCond("(select "+h+" r)", sort, "alloc!entry", 0); len(conds) > 0 {
		fv.decls = append(fv.decls, fmt.Sprintf("(assert (forall ((r Int)) (! (=> (<= r alloc!entry) (and %s)) :pattern ((select %s r)))))", strings.Join(conds, " "), h))
		return
	}
	if strings.HasPrefix(sort, "(Array Int ") {
		es := elemSortOfArray(sort)
		if conds := fv.wfCond("(select (select "+h+" r) i)", es, "alloc!entry", 0); len(conds) > 0 {
			fv.decls = append(fv.decls, fmt.Sprintf("(assert (forall ((r Int) (i Int)) (! (=> (<= r alloc!entry) (and %s)) :pattern ((select (select %s r) i)))))", strings.Join(conds, " "), h))
		}
	}
}


// pcHas: the path condition contains exactly this assertion.
func (st *State) pcHas(t string) bool {
	for _, h := range st.pc {
		if h == t {
			return true
		}
	}
	return false
}
