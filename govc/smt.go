package main

// Solver back ends and the per-obligation race.

import (
	"bytes"
	"context"
	"fmt"
	"os"
	"os/exec"
	"path/filepath"
	"strings"
	"sync"
	"time"
)

type solverRes struct {
	Solver string
	Status string // unsat | sat | unknown | timeout | error
	Out    string
	Secs   float64
}

type solverDef struct {
	name string
	args func(file string, timeoutS int) []string
	prep func(smt string) string
}

var solvers = []solverDef{
	{"z3-new", func(f string, t int) []string { return []string{"z3-new", fmt.Sprintf("-T:%d", t), f} }, nil},
	{"z3", func(f string, t int) []string { return []string{"z3", fmt.Sprintf("-T:%d", t), f} }, nil},
	{"cvc5", func(f string, t int) []string {
		return []string{"cvc5", "--incremental", fmt.Sprintf("--tlimit=%d", t*1000), f}
	}, cvc5Prep},
}

// cvc5 wants produce-models before set-logic; we use no set-logic (ALL) and
// patterns are accepted. z3-only options are stripped.
func cvc5Prep(s string) string {
	var out []string
	out = append(out, "(set-option :produce-models true)", "(set-logic ALL)")
	for _, l := range strings.Split(s, "\n") {
		if strings.HasPrefix(l, "(set-option") {
			continue
		}
		out = append(out, l)
	}
	return strings.Join(out, "\n")
}

func classify(out string) string {
	isErr := false
	for _, l := range strings.Split(out, "\n") {
		l = strings.TrimSpace(l)
		switch l {
		case "unsat", "sat", "unknown", "timeout":
			return l
		}
		if strings.HasPrefix(l, "(error") {
			isErr = true
		}
	}
	if isErr {
		return "error"
	}
	return "unknown"
}

// raceSolvers runs the SMT text on all solvers; the first definitive answer
// (sat/unsat) wins. With all=true every solver is run to completion and all
// results are returned (thorough tier).
func raceSolvers(dir, name, smt string, timeoutS int, all bool, only []string) (solverRes, []solverRes) {
	// most obligations are decided by the newest z3 within a fraction of a second: give it a
	// short head start alone and race all three only for what it leaves undecided (the
	// machine is CPU-bound when 16 workers race three solvers each)
	if !all && len(only) == 0 && timeoutS > 2 {
		if r, rs := raceSolvers(dir, name+"_first", smt, 2, false, []string{solvers[0].name}); r.Status == "sat" || r.Status == "unsat" {
			return r, rs
		}
	}
	ctx, cancel := context.WithCancel(context.Background())
	defer cancel()
	type r struct{ res solverRes }
	ch := make(chan solverRes, len(solvers))
	n := 0
	for _, sd := range solvers {
		if len(only) > 0 {
			ok := false
			for _, o := range only {
				if o == sd.name {
					ok = true
				}
			}
			if !ok {
				continue
			}
		}
		n++
		go func(sd solverDef) {
			txt := smt
			if sd.prep != nil {
				txt = sd.prep(txt)
			}
			f := filepath.Join(dir, sanitize(name)+"."+sd.name+".smt2")
			os.WriteFile(f, []byte(txt), 0o644)
			a := sd.args(f, timeoutS)
			c, cc := context.WithTimeout(ctx, time.Duration(timeoutS+2)*time.Second)
			defer cc()
			cmd := exec.CommandContext(c, a[0], a[1:]...)
			var ob bytes.Buffer
			cmd.Stdout = &ob
			cmd.Stderr = &ob
			t0 := time.Now()
			cmd.Run()
			st := classify(ob.String())
			if c.Err() != nil && st != "sat" && st != "unsat" {
				st = "timeout"
			}
			ch <- solverRes{sd.name, st, ob.String(), time.Since(t0).Seconds()}
		}(sd)
	}
	var allres []solverRes
	best := solverRes{Status: "unknown"}
	for i := 0; i < n; i++ {
		x := <-ch
		allres = append(allres, x)
		if x.Status == "sat" || x.Status == "unsat" {
			if best.Status != "sat" && best.Status != "unsat" {
				best = x
				if !all {
					cancel()
					return best, allres
				}
			}
		} else if best.Status != "sat" && best.Status != "unsat" {
			if best.Solver == "" || x.Status == "timeout" {
				best = x
			}
		}
	}
	return best, allres
}

func sanitize(s string) string {
	var b strings.Builder
	for _, c := range s {
		if c >= 'a' && c <= 'z' || c >= 'A' && c <= 'Z' || c >= '0' && c <= '9' || c == '_' || c == '-' || c == '.' {
			b.WriteRune(c)
		} else {
			b.WriteByte('_')
		}
	}
	x := b.String()
	if len(x) > 150 {
		x = x[:150]
	}
	return x
}

// parallel map over obligations
func parallelDo(n, workers int, f func(i int)) {
	var wg sync.WaitGroup
	ch := make(chan int)
	for w := 0; w < workers; w++ {
		wg.Add(1)
		go func() {
			defer wg.Done()
			for i := range ch {
				f(i)
			}
		}()
	}
	for i := 0; i < n; i++ {
		ch <- i
	}
	close(ch)
	wg.Wait()
}
