package main

// Evaluation of contract expressions to SMT terms.

import (
	"os"
	"fmt"
	"go/types"
	"math/big"
	"strings"

	"golang.org/x/tools/go/ssa"
)

type Env struct {
	fv    *FV
	params map[string]Val // function parameters (entry values); shadowed by the current value of the variable
	vars  map[string]Val
	st    *State
	old   *State
	names map[string]Val // source-level variable names on this path
	fn    *ssa.Function
	depth int
	unfold int
	noNat bool
}

func (e *Env) with(name string, v Val) *Env {
	n := *e
	n.vars = make(map[string]Val, len(e.vars)+1)
	for k, x := range e.vars {
		n.vars[k] = x
	}
	n.vars[name] = v
	return &n
}

type specFail string

func (fv *FV) specErr(format string, a ...interface{}) {
	panic(specFail(fmt.Sprintf(format, a...)))
}

// envFor builds the evaluation environment at the current point of st.
func (fv *FV) envFor(st *State) *Env {
	env := &Env{fv: fv, vars: map[string]Val{}, params: st.fr.params, st: st, old: st.fr.entry, names: st.fr.names, fn: st.fr.fn}
	return env
}

func (fv *FV) evalBool(e *Expr, env *Env) string {
	v := fv.evalSpec(e, env)
	if v.S != "Bool" {
		fv.specErr("expected Bool, got %s in %s", v.S, e)
	}
	return v.T
}

func (fv *FV) lookupId(name string, env *Env) (Val, bool) {
	if v, ok := env.vars[name]; ok {
		return v, true
	}
	if env.names != nil {
		if v, ok := env.names[name]; ok {
			if v.Loc != nil {
				// address-taken variable: its current content
				return Val{T: fv.load(env.st, v.Loc), S: fv.locSort(v.Loc), Typ: v.Loc.typ}, true
			}
			return v, true
		}
	}
	if v, ok := env.params[name]; ok {
		return v, true
	}
	// a package-level variable of the function's own package: its current content
	if env.fn != nil {
		pk := env.fn.Pkg
		if pk == nil && env.fn.Parent() != nil {
			pk = env.fn.Parent().Pkg
		}
		if pk != nil {
			if g, ok := pk.Members[name].(*ssa.Global); ok {
				gv := fv.valOf(env.st, g)
				l := fv.ptrLoc(gv)
				return Val{T: fv.load(env.st, l), S: fv.locSort(l), Typ: l.typ}, true
			}
		}
	}
	if s, ok := fv.u.db.GGlobal[name]; ok {
		if g, ok := env.st.ghost[name]; ok {
			return g, true
		}
		n := "gg_" + name + "!0"
		fv.declare(n, s)
		if ax := "(assert (>= " + n + " 0))"; fv.u.db.GNat[name] && !fv.declS[ax] {
			fv.declS[ax] = true
			fv.decls = append(fv.decls, ax)
		}
		return Val{T: n, S: s}, true
	}
	return Val{}, false
}

func (fv *FV) ghostHeap(st *State, gf *GhostField) string {
	return fv.heapK(st, "G_"+gf.Struct+"_"+gf.Name, gf.Sort)
}

func structName(t types.Type) string {
	if p, ok := t.Underlying().(*types.Pointer); ok {
		t = p.Elem()
	}
	if n, ok := t.(*types.Named); ok {
		return n.Obj().Name()
	}
	return ""
}

func (fv *FV) fieldOf(base Val, name string, env *Env, e *Expr) Val {
	if base.Typ == nil {
		fv.specErr("field %s of untyped value in %s", name, e)
	}
	// ghost field?
	sn := structName(base.Typ)
	if gf, ok := fv.u.db.GFields[sn+"."+name]; ok {
		b := fv.asTerm(env.st, base)
		return Val{T: fmt.Sprintf("(select %s %s)", fv.ghostHeap(env.st, gf), b.T), S: gf.Sort}
	}
	t := base.Typ
	cur := base
	if pt, ok := t.Underlying().(*types.Pointer); ok {
		l := fv.ptrLoc(base)
		cur = Val{T: fv.load(env.st, l), S: fv.locSort(l), Typ: pt.Elem()}
		t = pt.Elem()
	}
	st, ok := t.Underlying().(*types.Struct)
	if !ok {
		fv.specErr("field %s of non-struct %s in %s", name, t, e)
	}
	var pkg *types.Package
	if n, ok := t.(*types.Named); ok {
		pkg = n.Obj().Pkg()
	}
	obj, index, _ := types.LookupFieldOrMethod(t, true, pkg, name)
	if obj == nil {
		// try all packages for unexported promoted fields
		var find func(s *types.Struct, path []int) []int
		find = func(s *types.Struct, path []int) []int {
			for i := 0; i < s.NumFields(); i++ {
				if s.Field(i).Name() == name {
					return append(path, i)
				}
			}
			for i := 0; i < s.NumFields(); i++ {
				if s.Field(i).Embedded() {
					if es, ok := s.Field(i).Type().Underlying().(*types.Struct); ok {
						if r := find(es, append(append([]int(nil), path...), i)); r != nil {
							return r
						}
					}
				}
			}
			return nil
		}
		index = find(st, nil)
		if index == nil {
			fv.specErr("no field %s in %s (%s)", name, t, e)
		}
	} else if _, isVar := obj.(*types.Var); !isVar {
		fv.specErr("%s is not a field of %s", name, t)
	}
	for _, i := range index {
		// auto-deref embedded pointers
		if pt, ok := cur.Typ.Underlying().(*types.Pointer); ok {
			l := fv.ptrLoc(cur)
			cur = Val{T: fv.load(env.st, l), S: fv.locSort(l), Typ: pt.Elem()}
		}
		si := fv.u.structInfo(cur.Typ, fv.bv)
		ft := cur.Typ.Underlying().(*types.Struct).Field(i).Type()
		cur = Val{T: fmt.Sprintf("(%s %s)", si.Fields[i], cur.T), S: si.FSorts[i], Typ: ft}
	}
	return cur
}

func isBV(s string) bool { return strings.HasPrefix(s, "(_ BitVec") }
func isFP(s string) bool { return strings.HasPrefix(s, "(_ FloatingPoint") }
func bvWidth(s string) int {
	var w int
	fmt.Sscanf(s, "(_ BitVec %d)", &w)
	return w
}

// coerce integer literal operands to the other operand's sort
func (fv *FV) coerce(a, b Val, ea, eb *Expr) (Val, Val) {
	lit := func(e *Expr) (*big.Int, bool) {
		if e.Op == "int" {
			v, ok := new(big.Int).SetString(e.Name, 0)
			return v, ok
		}
		if e.Op == "un" && e.Name == "-" && e.Args[0].Op == "int" {
			v, ok := new(big.Int).SetString(e.Args[0].Name, 0)
			if ok {
				v.Neg(v)
			}
			return v, ok
		}
		return nil, false
	}
	if isBV(a.S) && b.S == "Int" {
		if v, ok := lit(eb); ok {
			b = Val{T: bvLit(v, bvWidth(a.S)), S: a.S, Typ: a.Typ}
		}
	}
	if isBV(b.S) && a.S == "Int" {
		if v, ok := lit(ea); ok {
			a = Val{T: bvLit(v, bvWidth(b.S)), S: b.S, Typ: b.Typ}
		}
	}
	if isFP(a.S) && b.S == "Int" {
		if v, ok := lit(eb); ok && v.Sign() == 0 {
			b = Val{T: fv.u.zero(a.S), S: a.S, Typ: a.Typ}
		}
	}
	if b.Typ == nil {
		b.Typ = a.Typ
	}
	if a.Typ == nil {
		a.Typ = b.Typ
	}
	return a, b
}

func (fv *FV) evalSpec(e *Expr, env *Env) Val {
	switch e.Op {
	case "int":
		v, ok := new(big.Int).SetString(e.Name, 0)
		if !ok {
			fv.specErr("bad int %s", e.Name)
		}
		return Val{T: intLit(v), S: "Int"}
	case "bool":
		return Val{T: e.Name, S: "Bool"}
	case "str":
		return Val{T: fv.u.strLit(e.Name), S: "Str", Typ: types.Typ[types.String]}
	case "nil":
		return Val{T: "nil", S: "Nil"}
	case "id":
		if v, ok := fv.lookupId(e.Name, env); ok {
			if os.Getenv("GOVC_DEBUG_ID") == e.Name {
				_, inVars := env.vars[e.Name]
				_, inNames := env.names[e.Name]
				_, inParams := env.params[e.Name]
				fmt.Fprintf(os.Stderr, "lookup %s in %s -> T=%q S=%q loc=%v vars=%v names=%v params=%v\n", e.Name, env.fn.Name(), v.T, v.S, v.Loc != nil, inVars, inNames, inParams)
			}
			return v
		}
		fv.specErr("unknown identifier %s in %s", e.Name, env.fn.Name())
	case "old":
		if env.old == nil {
			fv.specErr("old() not available here")
		}
		n := *env
		n.st = env.old
		n.names = env.old.fr.names
		// parameters keep entry values (vars); results are not visible but harmless
		return fv.evalSpec(e.Args[0], &n)
	case "field":
		b := fv.evalSpec(e.Args[0], env)
		return fv.fieldOf(b, e.Name, env, e)
	case "index":
		b := fv.evalSpec(e.Args[0], env)
		i := fv.evalSpec(e.Args[1], env)
		if len(i.T) <= 40 && !strings.Contains(i.T, "!q") {
			env.st.addIdx(i.T)
		}
		switch {
		case b.S == "Slice":
			es := "Int"
			var et types.Type
			if b.Typ != nil {
				if sl, ok := b.Typ.Underlying().(*types.Slice); ok {
					es = fv.u.sortOf(sl.Elem(), fv.bv)
					et = sl.Elem()
				}
			}
			h := fv.heap(env.st, "(Array Int "+es+")")
			return Val{T: fmt.Sprintf("(select (select %s (sref %s)) (+ (soff %s) %s))", h, b.T, b.T, i.T), S: es, Typ: et}
		case strings.HasPrefix(b.S, "(Array "):
			es := b.S[strings.LastIndex(b.S[:len(b.S)-1], " ")+1 : len(b.S)-1]
			// element sort: strip "(Array K " prefix properly
			es = arrayElemSort(b.S)
			var et types.Type
			if b.Typ != nil {
				if at, ok := b.Typ.Underlying().(*types.Array); ok {
					et = at.Elem()
				}
			}
			return Val{T: fmt.Sprintf("(select %s %s)", b.T, i.T), S: es, Typ: et}
		}
		fv.specErr("cannot index sort %s in %s", b.S, e)
	case "un":
		x := fv.evalSpec(e.Args[0], env)
		switch e.Name {
		case "!":
			return Val{T: "(not " + x.T + ")", S: "Bool"}
		case "-":
			if isBV(x.S) {
				return Val{T: "(bvneg " + x.T + ")", S: x.S, Typ: x.Typ}
			}
			if isFP(x.S) {
				return Val{T: "(fp.neg " + x.T + ")", S: x.S, Typ: x.Typ}
			}
			return Val{T: "(- " + x.T + ")", S: "Int", Typ: x.Typ}
		case "#":
			switch x.S {
			case "Slice":
				env.st.addIdx(fmt.Sprintf("(slen %s)", x.T))
				return Val{T: fmt.Sprintf("(slen %s)", x.T), S: "Int"}
			case "Str":
				return Val{T: fmt.Sprintf("(str_len %s)", x.T), S: "Int"}
			}
			if x.Typ != nil {
				if at, ok := x.Typ.Underlying().(*types.Array); ok {
					return Val{T: fmt.Sprint(at.Len()), S: "Int"}
				}
			}
			fv.specErr("# of sort %s", x.S)
		case "*":
			l := fv.ptrLoc(x)
			return Val{T: fv.load(env.st, l), S: fv.locSort(l), Typ: l.typ}
		}
	case "bin":
		return fv.evalBin(e, env)
	case "let":
		d := fv.evalSpec(e.Args[0], env)
		return fv.evalSpec(e.Args[1], env.with(e.Name, d))
	case "forall", "exists":
		if smallConstRange(e) {
			var lo, hi int
			fmt.Sscan(e.Args[0].Name, &lo)
			fmt.Sscan(e.Args[1].Name, &hi)
			if hi-lo <= 64 {
				var parts []string
				for k := lo; k < hi; k++ {
					parts = append(parts, fv.evalBool(e.Args[2].subst(map[string]*Expr{e.Name: {Op: "int", Name: fmt.Sprint(k)}}), env))
				}
				if len(parts) == 0 {
					return Val{T: map[string]string{"forall": "true", "exists": "false"}[e.Op], S: "Bool"}
				}
				if len(parts) == 1 {
					return Val{T: parts[0], S: "Bool"}
				}
				return Val{T: "(" + map[string]string{"forall": "and", "exists": "or"}[e.Op] + " " + strings.Join(parts, " ") + ")", S: "Bool"}
			}
		}
		lo := fv.evalSpec(e.Args[0], env)
		hi := fv.evalSpec(e.Args[1], env)
		fv.nfresh++
		bn := fmt.Sprintf("%s!q%d", e.Name, fv.nfresh)
		body := fv.evalBool(e.Args[2], env.with(e.Name, Val{T: bn, S: "Int"}))
		rng := fmt.Sprintf("(and (<= %s %s) (< %s %s))", lo.T, bn, bn, hi.T)
		if e.Op == "forall" {
			return Val{T: fmt.Sprintf("(forall ((%s Int)) (=> %s %s))", bn, rng, body), S: "Bool"}
		}
		return Val{T: fmt.Sprintf("(exists ((%s Int)) (and %s %s))", bn, rng, body), S: "Bool"}
	case "call":
		return fv.evalCall(e, env)
	}
	fv.specErr("cannot evaluate %s", e)
	return Val{}
}

func arrayElemSort(s string) string {
	// s = (Array K V); K has no nested parens for our uses except BitVec/FP; parse properly
	inner := s[len("(Array ") : len(s)-1]
	depth := 0
	for i, c := range inner {
		switch c {
		case '(':
			depth++
		case ')':
			depth--
		case ' ':
			if depth == 0 {
				return inner[i+1:]
			}
		}
	}
	return inner
}

func (fv *FV) isNilCmp(v Val) string {
	switch v.S {
	case "Int":
		return fmt.Sprintf("(= %s 0)", v.T)
	case "Iface":
		return fmt.Sprintf("(= (ityp %s) 0)", v.T)
	case "Slice":
		return fmt.Sprintf("(= (sref %s) 0)", v.T)
	}
	fv.specErr("nil comparison on sort %s", v.S)
	return ""
}

func (fv *FV) evalBin(e *Expr, env *Env) Val {
	op := e.Name
	switch op {
	case "&&", "||", "==>", "<==>":
		a := fv.evalBool(e.Args[0], env)
		if op == "==>" && strings.Contains(a, unknownTypeID) {
			// guarded by a type test on a type that does not exist in this package
			return Val{T: "true", S: "Bool"}
		}
		b := fv.evalBool(e.Args[1], env)
		m := map[string]string{"&&": "and", "||": "or", "==>": "=>", "<==>": "="}
		return Val{T: fmt.Sprintf("(%s %s %s)", m[op], a, b), S: "Bool"}
	}
	a := fv.evalSpec(e.Args[0], env)
	b := fv.evalSpec(e.Args[1], env)
	if (op == "==" || op == "!=") && ((a.S == "Nil" && b.Loc != nil && len(b.Loc.path) > 0) || (b.S == "Nil" && a.Loc != nil && len(a.Loc.path) > 0)) {
		// the address of a field or element is never nil
		return Val{T: map[string]string{"==": "false", "!=": "true"}[op], S: "Bool"}
	}
	a = fv.asTermSpec(env, a)
	b = fv.asTermSpec(env, b)
	if op == "==" || op == "!=" {
		var t string
		switch {
		case b.S == "Nil":
			t = fv.isNilCmp(a)
		case a.S == "Nil":
			t = fv.isNilCmp(b)
		default:
			a, b = fv.coerce(a, b, e.Args[0], e.Args[1])
			if a.S != b.S {
				fv.specErr("sort mismatch %s vs %s in %s", a.S, b.S, e)
			}
			if isFP(a.S) {
				// spec equality on floats is bitwise identity unless written fpeq()
				t = fmt.Sprintf("(= %s %s)", a.T, b.T)
			} else {
				t = fmt.Sprintf("(= %s %s)", a.T, b.T)
			}
		}
		if op == "!=" {
			t = "(not " + t + ")"
		}
		return Val{T: t, S: "Bool"}
	}
	a, b = fv.coerce(a, b, e.Args[0], e.Args[1])
	if a.S != b.S {
		fv.specErr("sort mismatch %s vs %s in %s", a.S, b.S, e)
	}
	signed := true
	if a.Typ != nil {
		if bt, ok := a.Typ.Underlying().(*types.Basic); ok && bt.Info()&types.IsInteger != 0 {
			_, signed = intWidth(bt)
		}
	}
	switch op {
	case "<", "<=", ">", ">=":
		switch {
		case a.S == "Int":
			return Val{T: fmt.Sprintf("(%s %s %s)", op, a.T, b.T), S: "Bool"}
		case isBV(a.S):
			m := map[string]string{"<": "bvult", "<=": "bvule", ">": "bvugt", ">=": "bvuge"}
			if signed {
				m = map[string]string{"<": "bvslt", "<=": "bvsle", ">": "bvsgt", ">=": "bvsge"}
			}
			return Val{T: fmt.Sprintf("(%s %s %s)", m[op], a.T, b.T), S: "Bool"}
		case isFP(a.S):
			m := map[string]string{"<": "fp.lt", "<=": "fp.leq", ">": "fp.gt", ">=": "fp.geq"}
			return Val{T: fmt.Sprintf("(%s %s %s)", m[op], a.T, b.T), S: "Bool"}
		case a.S == "Str":
			switch op {
			case "<":
				return Val{T: fmt.Sprintf("(str_lt %s %s)", a.T, b.T), S: "Bool"}
			case ">":
				return Val{T: fmt.Sprintf("(str_lt %s %s)", b.T, a.T), S: "Bool"}
			case "<=":
				return Val{T: fmt.Sprintf("(not (str_lt %s %s))", b.T, a.T), S: "Bool"}
			case ">=":
				return Val{T: fmt.Sprintf("(not (str_lt %s %s))", a.T, b.T), S: "Bool"}
			}
		}
	case "+", "-", "*", "/", "%":
		if a.S == "Int" {
			m := map[string]string{"+": "+", "-": "-", "*": "*", "/": "div", "%": "mod"}
			return Val{T: fmt.Sprintf("(%s %s %s)", m[op], a.T, b.T), S: "Int", Typ: nil}
		}
		if isBV(a.S) {
			m := map[string]string{"+": "bvadd", "-": "bvsub", "*": "bvmul", "/": "bvudiv", "%": "bvurem"}
			return Val{T: fmt.Sprintf("(%s %s %s)", m[op], a.T, b.T), S: a.S, Typ: a.Typ}
		}
	case "&", "|", "^", "<<", ">>":
		if isBV(a.S) {
			m := map[string]string{"&": "bvand", "|": "bvor", "^": "bvxor", "<<": "bvshl", ">>": "bvlshr"}
			return Val{T: fmt.Sprintf("(%s %s %s)", m[op], a.T, b.T), S: a.S, Typ: a.Typ}
		}
	case "++":
		if isBV(a.S) && isBV(b.S) {
			return Val{T: fmt.Sprintf("(concat %s %s)", a.T, b.T), S: bvSort(bvWidth(a.S) + bvWidth(b.S))}
		}
	}
	fv.specErr("operator %s on sorts %s,%s in %s", op, a.S, b.S, e)
	return Val{}
}

func (fv *FV) asTermSpec(env *Env, v Val) Val {
	if v.Loc != nil {
		if len(v.Loc.path) == 0 {
			return Val{T: v.Loc.ref, S: "Int", Typ: v.Typ}
		}
		fv.specErr("interior pointer used as a value in a contract")
	}
	return v
}

func (fv *FV) evalCall(e *Expr, env *Env) Val {
	if env.depth > 40 {
		fv.specErr("predicate expansion too deep at %s", e.Name)
	}
	if p, ok := fv.u.db.Preds[e.Name]; ok {
		if len(p.Params) != len(e.Args) {
			fv.specErr("pred %s arity", e.Name)
		}
		n := *env
		n.vars = make(map[string]Val, len(env.vars)+len(p.Params))
		for k, v := range env.vars {
			n.vars[k] = v
		}
		for i, a := range e.Args {
			n.vars[p.Params[i]] = fv.evalSpec(a, env)
		}
		n.depth = env.depth + 1
		return fv.evalSpec(p.Body, &n)
	}
	if sf, ok := fv.u.db.SpecFns[e.Name]; ok {
		fv.resolveSpecFnSorts(sf)
		var a []string
		for i, x := range e.Args {
			v := fv.asTermSpec(env, fv.evalSpec(x, env))
			if i < len(sf.Params) && v.S != sf.Params[i] {
				fv.specErr("specfn %s arg %d: sort %s, want %s", e.Name, i, v.S, sf.Params[i])
			}
			a = append(a, v.T)
		}
		if len(a) == 0 {
			return Val{T: sf.Name, S: sf.Ret}
		}
		t := "(" + sf.Name + " " + strings.Join(a, " ") + ")"
		if sf.Body != nil && env.unfold < sf.Depth && !strings.Contains(t, "!q") {
			// one-step unfolding of the defining equation for this application term
			n := *env
			n.vars = make(map[string]Val, len(env.vars)+len(sf.PNames))
			for k, v := range env.vars {
				n.vars[k] = v
			}
			for i, pn := range sf.PNames {
				n.vars[pn] = Val{T: a[i], S: sf.Params[i], Typ: sf.PTypes[i]}
			}
			n.unfold = env.unfold + 1
			body := fv.evalSpec(sf.Body, &n)
			ax := fmt.Sprintf("(assert (= %s %s))", t, body.T)
			if !fv.declS[ax] {
				fv.declS[ax] = true
				fv.decls = append(fv.decls, ax)
			}
		}
		if sf.Nat && !env.noNat && !strings.Contains(t, "!q") {
			fv.eng.ensureNat(fv, env, sf)
			ax := fmt.Sprintf("(assert (>= %s 0))", t)
			if !fv.declS[ax] {
				fv.declS[ax] = true
				fv.decls = append(fv.decls, ax)
			}
		}
		return Val{T: t, S: sf.Ret}
	}
	arg := func(i int) Val { return fv.evalSpec(e.Args[i], env) }
	switch e.Name {
	case "len":
		return fv.evalSpec(&Expr{Op: "un", Name: "#", Args: e.Args}, env)
	case "cap":
		return Val{T: fmt.Sprintf("(scap %s)", arg(0).T), S: "Int"}
	case "ite":
		c := fv.evalBool(e.Args[0], env)
		a, b := arg(1), arg(2)
		a, b = fv.coerce(a, b, e.Args[1], e.Args[2])
		return Val{T: fmt.Sprintf("(ite %s %s %s)", c, a.T, b.T), S: a.S, Typ: a.Typ}
	case "pow2":
		return Val{T: fmt.Sprintf("(pow2 %s)", arg(0).T), S: "Int"}
	case "min", "max":
		a, b := arg(0), arg(1)
		o := "<="
		if e.Name == "max" {
			o = ">="
		}
		return Val{T: fmt.Sprintf("(ite (%s %s %s) %s %s)", o, a.T, b.T, a.T, b.T), S: "Int"}
	case "dyn":
		return Val{T: fmt.Sprintf("(ityp %s)", arg(0).T), S: "Int"}
	case "unbox":
		// unbox(x): the scalar stored in interface value x
		return Val{T: fmt.Sprintf("(unbox_any (ival %s))", arg(0).T), S: "Int"}
	case "payload":
		return Val{T: fmt.Sprintf("(ival %s)", arg(0).T), S: "Int"}
	case "lib":
		// lib(x): the dynamic type of interface value x is declared in the library
		x := arg(0)
		return Val{T: fmt.Sprintf("(lib_type (ityp %s))", x.T), S: "Bool"}
	case "fnid":
		return Val{T: fmt.Sprintf("(fn_of %s)", fv.asTermSpec(env, arg(0)).T), S: "Int"}
	case "thisfn":
		// the function under verification, as a function value
		return fv.funcVal(fv.fn)
	case "fnconst":
		// fnconst("name", f): a per-function constant; its value is known (from the fnconst table)
		// only for the function under verification, otherwise it is an unconstrained function of f
		name := e.Args[0].Name
		tbl, ok := fv.u.db.FnConsts[name]
		if !ok {
			fv.specErr("fnconst: no table %q", name)
		}
		sym := "fnc_" + name
		if d := fmt.Sprintf("(declare-fun %s (Int) Int)", sym); !fv.declS[d] {
			fv.declS[d] = true
			fv.decls = append(fv.decls, d)
		}
		if fv.fn.Pkg != nil {
			if v, ok := tbl[fv.fn.Pkg.Pkg.Name()+"."+fv.fn.Name()]; ok {
				ax := fmt.Sprintf("(assert (= (%s (fn_of %s)) %d))", sym, fv.funcVal(fv.fn).T, v)
				if !fv.declS[ax] {
					fv.declS[ax] = true
					fv.decls = append(fv.decls, ax)
				}
			}
		}
		return Val{T: fmt.Sprintf("(%s (fn_of %s))", sym, fv.asTermSpec(env, arg(1)).T), S: "Int"}
	case "fnidOf":
		// fnidOf("GEN.begin") / fnidOf("parquet.RepetitionRequired")
		name := e.Args[0].Name
		i := strings.Index(name, ".")
		pkg, fname := name[:i], name[i+1:]
		for _, p := range fv.prog.AllPackages() {
			match := pkgAlias(p.Pkg) == pkg
			if pkg == "GEN" {
				match = fv.fn.Pkg != nil && p.Pkg == fv.fn.Pkg.Pkg || (fv.fn.Pkg == nil && fv.fn.Parent() != nil && fv.fn.Parent().Pkg != nil && p.Pkg == fv.fn.Parent().Pkg.Pkg)
			}
			if !match {
				continue
			}
			if f := p.Func(fname); f != nil {
				return fv.funcVal(f)
			}
		}
		if pkg == "GEN" {
			for _, f := range fv.eng.funcs["GEN::"+fname] {
				if pkgPathOf(f) == pkgPathOf(fv.fn) {
					return fv.funcVal(f)
				}
			}
		}
		fv.specErr("fnidOf: no function %q", name)
	case "external":
		// external(x): x is non-nil and its dynamic type is not declared in the library
		x := arg(0)
		if x.S != "Iface" {
			fv.specErr("external() of non-interface")
		}
		return Val{T: fmt.Sprintf("(and (not (= (ityp %s) 0)) (not (lib_type (ityp %s))))", x.T, x.T), S: "Bool"}
	case "cast":
		// cast("*pkg.T", x): view an interface payload or a ghost ref as a typed pointer
		t := fv.parseTypeName(e.Args[0].Name)
		x := arg(1)
		if x.S == "Iface" {
			env.st.addIdx(fmt.Sprintf("(ival %s)", x.T))
			return Val{T: fmt.Sprintf("(ival %s)", x.T), S: "Int", Typ: t}
		}
		return Val{T: x.T, S: "Int", Typ: t}
	case "typeid":
		// typeid("*bytes.Buffer")
		// a GEN type this corpus package does not contain: an id no value has
		if t := fv.tryParseTypeName(e.Args[0].Name); t != nil {
			return Val{T: fmt.Sprint(fv.u.typeID(t)), S: "Int"}
		}
		return Val{T: unknownTypeID, S: "Int"}
	case "isNaN":
		if x := arg(0); isFP(x.S) {
			return Val{T: fmt.Sprintf("(fp.isNaN %s)", x.T), S: "Bool"}
		}
		return Val{T: "false", S: "Bool"}
	case "cntLess":
		// cntLess(s, n, m): number of j in [0,n) with s[j] < m; the defining one-step unfolding of
		// every term built here is added as an axiom instance
		sl, n, m := arg(0), arg(1), arg(2)
		es := "Int"
		hs := "(Array Int " + es + ")"
		arr := fmt.Sprintf("(select %s (sref %s))", fv.heap(env.st, hs), sl.T)
		off := fmt.Sprintf("(soff %s)", sl.T)
		t := fmt.Sprintf("(cnt_lt %s %s %s %s)", arr, off, n.T, m.T)
		ax := fmt.Sprintf("(assert (= %s (ite (<= %s 0) 0 (+ (cnt_lt %s %s (- %s 1) %s) (ite (< (select %s (+ %s (- %s 1))) %s) 1 0)))))", t, n.T, arr, off, n.T, m.T, arr, off, n.T, m.T)
		ax2 := fmt.Sprintf("(assert (and (<= 0 %s) (or (<= %s 0) (<= %s %s))))", t, n.T, t, n.T)
		for _, a := range []string{ax, ax2} {
			if !fv.declS[a] {
				fv.declS[a] = true
				fv.decls = append(fv.decls, a)
			}
		}
		return Val{T: t, S: "Int"}
	case "fpeq":
		return Val{T: fmt.Sprintf("(fp.eq %s %s)", arg(0).T, arg(1).T), S: "Bool"}
	case "extract":
		hi, lo := e.Args[0].Name, e.Args[1].Name
		var h, l int
		fmt.Sscan(hi, &h)
		fmt.Sscan(lo, &l)
		if !fv.bv {
			// mathematical integers: bits [lo, hi] of a non-negative value, kept opaque (an
			// uninterpreted function of hi, lo and the value): integer-mode callers only carry
			// such values from a bit-vector-mode contract to their own contract, by congruence
			x := arg(2)
			t := fmt.Sprintf("(xtr %d %d %s)", h, l, x.T)
			fv.noteIntWidth(t, h-l+1)
			return Val{T: t, S: "Int"}
		}
		return Val{T: fmt.Sprintf("((_ extract %d %d) %s)", h, l, arg(2).T), S: bvSort(h - l + 1)}
	case "zext":
		var n int
		fmt.Sscan(e.Args[0].Name, &n)
		x := arg(1)
		if !fv.bv {
			return x
		}
		return Val{T: fmt.Sprintf("((_ zero_extend %d) %s)", n-bvWidth(x.S), x.T), S: bvSort(n)}
	case "concat":
		if !fv.bv {
			// most significant part first; widths from the Go types (uint8 elements) or earlier extracts
			var terms []string
			shift := 0
			for i := len(e.Args) - 1; i >= 0; i-- {
				x := arg(i)
				w := fv.intWidthOf(x)
				if shift == 0 {
					terms = append(terms, x.T)
				} else {
					terms = append(terms, fmt.Sprintf("(* %s %d)", x.T, uint64(1)<<uint(shift)))
				}
				shift += w
			}
			t := terms[0]
			if len(terms) > 1 {
				t = "(+ " + strings.Join(terms, " ") + ")"
			}
			fv.noteIntWidth(t, shift)
			return Val{T: t, S: "Int"}
		}
		var parts []string
		w := 0
		for i := range e.Args {
			x := arg(i)
			parts = append(parts, x.T)
			w += bvWidth(x.S)
		}
		return Val{T: "(concat " + strings.Join(parts, " ") + ")", S: bvSort(w)}
	case "HA":
		s := arg(0)
		es := "Int"
		if s.Typ != nil {
			if sl, ok := s.Typ.Underlying().(*types.Slice); ok {
				es = fv.u.sortOf(sl.Elem(), fv.bv)
			}
		}
		hs := "(Array Int " + es + ")"
		var at types.Type
		if s.Typ != nil {
			if sl, ok := s.Typ.Underlying().(*types.Slice); ok {
				at = types.NewArray(sl.Elem(), 0)
			}
		}
		return Val{T: fmt.Sprintf("(select %s (sref %s))", fv.heap(env.st, hs), s.T), S: hs, Typ: at}
	case "off":
		return Val{T: fmt.Sprintf("(soff %s)", arg(0).T), S: "Int"}
	case "ref":
		x := arg(0)
		if x.S == "Slice" {
			return Val{T: fmt.Sprintf("(sref %s)", x.T), S: "Int"}
		}
		return Val{T: fv.asTermSpec(env, x).T, S: "Int"}
	case "addr":
		// addr(x): the reference of the object a heap-allocated local (x escapes, &x is taken) lives in
		if e.Args[0].Op == "id" && env.names != nil {
			if v, ok := env.names[e.Args[0].Name]; ok && v.Loc != nil && len(v.Loc.path) == 0 {
				return Val{T: v.Loc.ref, S: "Int"}
			}
		}
		panic(specFail("addr(): argument is not a heap-allocated local"))
	case "sel":
		a, i := arg(0), arg(1)
		var et types.Type
		if a.Typ != nil {
			if at, ok := a.Typ.Underlying().(*types.Array); ok {
				et = at.Elem()
			}
		}
		return Val{T: fmt.Sprintf("(select %s %s)", a.T, i.T), S: arrayElemSort(a.S), Typ: et}
	case "cloArg":
		// the first captured variable of a closure value
		return Val{T: fmt.Sprintf("(clo_arg0 %s)", fv.asTermSpec(env, arg(0)).T), S: "Int"}
	case "upd":
		a, i, v := arg(0), arg(1), arg(2)
		return Val{T: fmt.Sprintf("(store %s %s %s)", a.T, i.T, v.T), S: a.S}
	case "strlt":
		return Val{T: fmt.Sprintf("(str_lt %s %s)", arg(0).T, arg(1).T), S: "Bool"}
	case "bytesOf":
		return Val{T: fmt.Sprintf("(str_bytes %s)", arg(0).T), S: "(Array Int Int)"}
	case "f32bits":
		return Val{T: fmt.Sprintf("(f32bits %s)", arg(0).T), S: "Int"}
	case "f64bits":
		return Val{T: fmt.Sprintf("(f64bits %s)", arg(0).T), S: "Int"}
	case "allocated":
		// allocated(p): p is an object existing at this point
		x := arg(0)
		t := x.T
		if x.S == "Slice" {
			t = fmt.Sprintf("(sref %s)", x.T)
		}
		return Val{T: fmt.Sprintf("(and (< 0 %s) (<= %s %s))", t, t, env.st.alloc), S: "Bool"}
	case "freshsince":
		// freshsince(p): allocated after function entry
		x := arg(0)
		t := x.T
		if x.S == "Slice" {
			t = fmt.Sprintf("(sref %s)", x.T)
		}
		return Val{T: fmt.Sprintf("(> %s %s)", t, env.old.alloc), S: "Bool"}
	case "rtype":
		// rtype(r): dynamic type id of the object at reference r (tracked types only)
		return Val{T: fmt.Sprintf("(rtype %s)", fv.asTermSpec(env, arg(0)).T), S: "Int"}
	case "sameheap":
		// sameheap("T"): every object of type T has the content it had at function entry
		var cs []string
		for _, k := range fv.heapKeysOfTypeName(e.Args[0].Name) {
			cs = append(cs, fmt.Sprintf("(= %s %s)", fv.heapK(env.st, k, k), fv.heapK(env.old, k, k)))
		}
		if len(cs) == 1 {
			return Val{T: cs[0], S: "Bool"}
		}
		return Val{T: "(and " + strings.Join(cs, " ") + ")", S: "Bool"}
	case "allocbound":
		return Val{T: fmt.Sprintf("(+ %s 1)", env.st.alloc), S: "Int"}
	case "allocatedAfter":
		x, y := arg(0), arg(1)
		tx, ty := x.T, fv.asTermSpec(env, y).T
		if x.S == "Slice" {
			tx = fmt.Sprintf("(sref %s)", x.T)
		}
		if y.S == "Slice" {
			ty = fmt.Sprintf("(sref %s)", y.T)
		}
		return Val{T: fmt.Sprintf("(or (= %s 0) (> %s %s))", tx, tx, ty), S: "Bool"}
	case "freshOrNil":
		x := arg(0)
		t := x.T
		if x.S == "Slice" {
			t = fmt.Sprintf("(sref %s)", x.T)
		}
		return Val{T: fmt.Sprintf("(or (= %s 0) (> %s %s))", t, t, env.old.alloc), S: "Bool"}
	case "sameOrFresh2":
		// sameOrFresh2(s, t): s shares t's backing array, or its array was allocated since entry
		x, y := arg(0), arg(1)
		tx, ty := x.T, y.T
		if x.S == "Slice" {
			tx = fmt.Sprintf("(sref %s)", x.T)
		}
		if y.S == "Slice" {
			ty = fmt.Sprintf("(sref %s)", y.T)
		}
		return Val{T: fmt.Sprintf("(or (= %s %s) (> %s %s))", tx, ty, tx, env.old.alloc), S: "Bool"}
	case "sameOrFresh":
		// sameOrFresh(s): backing array of s is the one it had at entry, or allocated since
		x := arg(0)
		n := *env
		n.st = env.old
		n.names = env.old.fr.names
		o := fv.evalSpec(e.Args[0], &n)
		t, ot := x.T, o.T
		if x.S == "Slice" {
			t = fmt.Sprintf("(sref %s)", x.T)
			ot = fmt.Sprintf("(sref %s)", o.T)
		}
		return Val{T: fmt.Sprintf("(or (= %s %s) (> %s %s))", t, ot, t, env.old.alloc), S: "Bool"}
	case "mapHas":
		m, k := arg(0), arg(1)
		mt := m.Typ.Underlying().(*types.Map)
		ks := fv.u.sortOf(mt.Key(), fv.bv)
		return Val{T: fmt.Sprintf("(select (select %s %s) %s)", fv.heap(env.st, "(Array "+ks+" Bool)"), m.T, k.T), S: "Bool"}
	case "mapGet":
		m, k := arg(0), arg(1)
		mt := m.Typ.Underlying().(*types.Map)
		ks, vs := fv.u.sortOf(mt.Key(), fv.bv), fv.u.sortOf(mt.Elem(), fv.bv)
		return Val{T: fmt.Sprintf("(select (select %s %s) %s)", fv.heap(env.st, "(Array "+ks+" "+vs+")"), m.T, k.T), S: vs, Typ: mt.Elem()}
	}
	fv.specErr("unknown spec function %s", e.Name)
	return Val{}
}

// skolemize turns a goal with outer universal quantifiers into a
// quantifier-free goal over fresh constants (sound for validity checking).
func (fv *FV) skolemGoal(g string) string {
	return g // quantified goals are negated by the solver; z3/cvc5 skolemise themselves
}

const unknownTypeID = "(- 999999)"

func (fv *FV) tryParseTypeName(name string) (t types.Type) {
	defer func() {
		if r := recover(); r != nil {
			if _, ok := r.(specFail); ok {
				t = nil
				return
			}
			panic(r)
		}
	}()
	return fv.parseTypeName(name)
}

// smallConstRange: a quantifier over a literal range of at most 64 values is expanded.
func smallConstRange(e *Expr) bool {
	if e.Args[0].Op != "int" || e.Args[1].Op != "int" {
		return false
	}
	lo, ok1 := new(big.Int).SetString(e.Args[0].Name, 0)
	hi, ok2 := new(big.Int).SetString(e.Args[1].Name, 0)
	if !ok1 || !ok2 {
		return false
	}
	d := new(big.Int).Sub(hi, lo)
	return d.Cmp(big.NewInt(64)) <= 0
}

// resolveSpecFnSorts turns Go type names in a specification function's
// signature into SMT sorts (and remembers the Go types for field access).
func (fv *FV) resolveSpecFnSorts(sf *SpecFn) {
	if len(sf.PTypes) != len(sf.Params) {
		sf.PTypes = make([]types.Type, len(sf.Params))
	}
	for i, p := range sf.Params {
		switch {
		case strings.HasPrefix(p, "goarr:"):
			t := fv.parseTypeName(p[6:])
			sf.Params[i] = "(Array Int " + fv.u.sortOf(t, false) + ")"
			sf.PTypes[i] = types.NewArray(t, 0)
		case strings.HasPrefix(p, "go:"):
			t := fv.parseTypeName(p[3:])
			sf.Params[i] = fv.u.sortOf(t, false)
			sf.PTypes[i] = t
		}
	}
}


// ensureNat checks once per run that a recursive spec function declared recfn[nat] cannot be
// negative: assuming it is non-negative at every argument, its defining body is non-negative
// (the induction step; the recursion descends on a parameter with a base case by construction).
func (e *Engine) ensureNat(fv *FV, env *Env, sf *SpecFn) {
	e.mu.Lock()
	res, done := e.natOK[sf.Name]
	e.mu.Unlock()
	if done {
		if !res {
			panic(specFail("recfn[nat] " + sf.Name + ": the defining body is not provably non-negative"))
		}
		return
	}
	n := *env
	n.vars = map[string]Val{}
	n.noNat = true
	n.unfold = 1 << 20
	var decls, qv, qa []string
	for i, pn := range sf.PNames {
		if sf.PTypes[i] != nil {
			panic(specFail("recfn[nat] " + sf.Name + ": only plain sorts are supported"))
		}
		c := fmt.Sprintf("natp_%s_%d", sf.Name, i)
		decls = append(decls, fmt.Sprintf("(declare-const %s %s)", c, sf.Params[i]))
		n.vars[pn] = Val{T: c, S: sf.Params[i]}
		qv = append(qv, fmt.Sprintf("(x%d %s)", i, sf.Params[i]))
		qa = append(qa, fmt.Sprintf("x%d", i))
	}
	body := fv.evalSpec(sf.Body, &n)
	app := "(" + sf.Name + " " + strings.Join(qa, " ") + ")"
	decls = append(decls, fmt.Sprintf("(assert (forall (%s) (! (>= %s 0) :pattern (%s))))", strings.Join(qv, " "), app, app))
	o := &Obligation{Goal: fmt.Sprintf("(>= %s 0)", body.T)}
	smt := buildSMT(e.u.prelude(nil, e.db, nil), strings.Join(decls, "\n"), o)
	r, _ := raceSolvers(e.tmp, "recfn_nat_"+sf.Name, smt, 10, false, nil)
	ok := r.Status == "unsat"
	e.mu.Lock()
	if e.natOK == nil {
		e.natOK = map[string]bool{}
	}
	e.natOK[sf.Name] = ok
	e.mu.Unlock()
	if !ok {
		panic(specFail("recfn[nat] " + sf.Name + ": the defining body is not provably non-negative (" + r.Status + ")"))
	}
}


func (fv *FV) noteIntWidth(t string, w int) {
	if fv.intW == nil {
		fv.intW = map[string]int{}
	}
	fv.intW[t] = w
}

// intWidthOf: bit width of an integer-mode term that stands for an unsigned machine value.
func (fv *FV) intWidthOf(x Val) int {
	if w, ok := fv.intW[x.T]; ok {
		return w
	}
	if x.Typ != nil {
		if b, ok := x.Typ.Underlying().(*types.Basic); ok {
			switch b.Kind() {
			case types.Uint8:
				return 8
			case types.Uint16:
				return 16
			case types.Uint32:
				return 32
			}
		}
	}
	panic(specFail("concat(): operand of unknown width in integer mode"))
}
