package main

// Quantifier handling: goals are skolemised at the contract-expression level,
// quantified hypotheses are kept (for the solver's own E-matching) and also
// instantiated at the index terms that occur on the path and at the goal's
// skolem constants.

import (
	"fmt"
	"strings"
)

type qfact struct {
	guard string // "" or a Bool term (hypothesis is guard => forall ...)
	v     string // bound variable name (unique)
	rng   string // range condition mentioning v
	body  string // body mentioning v
}

// expandPred returns the body of a predicate call with arguments substituted, or nil.
func (fv *FV) expandPred(e *Expr) *Expr {
	if e.Op != "call" {
		return nil
	}
	p, ok := fv.u.db.Preds[e.Name]
	if !ok || len(p.Params) != len(e.Args) {
		return nil
	}
	m := map[string]*Expr{}
	for i, a := range e.Args {
		m[p.Params[i]] = a
	}
	return p.Body.subst(m)
}

// assumeSpec assumes a contract clause, registering universally quantified
// conjuncts for instantiation.
func (fv *FV) assumeSpec(st *State, e *Expr, env *Env) {
	fv.assumeSpecG(st, e, env, "", 0)
}

func (fv *FV) assumeSpecG(st *State, e *Expr, env *Env, guard string, depth int) {
	if depth > 30 {
		st.assume(fv.guarded(guard, fv.evalBool(e, env)))
		return
	}
	switch {
	case e.Op == "bin" && e.Name == "&&":
		fv.assumeSpecG(st, e.Args[0], env, guard, depth+1)
		fv.assumeSpecG(st, e.Args[1], env, guard, depth+1)
		return
	case e.Op == "bin" && e.Name == "==>":
		a := fv.skolemAntecedent(st, e.Args[0], env, depth+1)
		if strings.Contains(a, unknownTypeID) {
			return
		}
		// an antecedent the path condition already decides (contract case splits) is simplified away:
		// the clause is dropped when it is refuted and assumed unguarded when it holds
		if st.pcHas("(not " + a + ")") {
			return
		}
		if st.pcHas(a) {
			fv.assumeSpecG(st, e.Args[1], env, guard, depth+1)
			return
		}
		g := a
		if guard != "" {
			g = fmt.Sprintf("(and %s %s)", guard, a)
		}
		fv.assumeSpecG(st, e.Args[1], env, g, depth+1)
		return
	case e.Op == "bin" && e.Name == "||":
		// A || B: assume it, and make the quantified conjuncts of each side available under the negation of the other
		st.assume(fv.guarded(guard, fv.evalBool(e, env)))
		tmp := &State{}
		for i := 0; i < 2; i++ {
			other := "(not " + fv.evalBool(e.Args[1-i], env) + ")"
			g := other
			if guard != "" {
				g = fmt.Sprintf("(and %s %s)", guard, other)
			}
			fv.collectQ(tmp, e.Args[i], env, g, depth+1)
		}
		st.qfacts = append(st.qfacts, tmp.qfacts...)
		return
	case e.Op == "old" && env.old != nil:
		// old(A) as a hypothesis: A over the entry state, its quantified conjuncts registered too
		n := *env
		n.st = env.old
		n.names = env.old.fr.names
		fv.assumeSpecG(st, e.Args[0], &n, guard, depth+1)
		return
	case e.Op == "call":
		if b := fv.expandPred(e); b != nil {
			fv.assumeSpecG(st, b, env, guard, depth+1)
			return
		}
	case e.Op == "let":
		d := fv.evalSpec(e.Args[0], env)
		fv.assumeSpecG(st, e.Args[1], env.with(e.Name, d), guard, depth+1)
		return
	case e.Op == "forall":
		if !smallConstRange(e) {
			lo := fv.evalSpec(e.Args[0], env)
			hi := fv.evalSpec(e.Args[1], env)
			fv.nfresh++
			bn := fmt.Sprintf("%s!q%d", e.Name, fv.nfresh)
			body := fv.evalBool(e.Args[2], env.with(e.Name, Val{T: bn, S: "Int"}))
			rng := fmt.Sprintf("(and (<= %s %s) (< %s %s))", lo.T, bn, bn, hi.T)
			st.assume(fv.guarded(guard, fmt.Sprintf("(forall ((%s Int)) (=> %s %s))", bn, rng, body)))
			st.qfacts = append(st.qfacts, qfact{guard, bn, rng, body})
			return
		}
	}
	st.assume(fv.guarded(guard, fv.evalBool(e, env)))
}

func (fv *FV) guarded(guard, f string) string {
	if guard == "" {
		return f
	}
	return fmt.Sprintf("(=> %s %s)", guard, f)
}

// evalGoal evaluates a clause in goal position: outer universal quantifiers
// (also below conjunctions, implications and predicates) are skolemised.
func (fv *FV) evalGoal(st *State, e *Expr, env *Env, depth int) string {
	if depth > 30 {
		return fv.evalBool(e, env)
	}
	switch {
	case e.Op == "bin" && e.Name == "&&":
		return fmt.Sprintf("(and %s %s)", fv.evalGoal(st, e.Args[0], env, depth+1), fv.evalGoal(st, e.Args[1], env, depth+1))
	case e.Op == "bin" && e.Name == "==>":
		// goal skolems of the consequent first, so that the antecedent can be instantiated at them
		if a0 := fv.evalBool(e.Args[0], env); strings.Contains(a0, unknownTypeID) {
			return "true"
		}
		cons := fv.evalGoal(st, e.Args[1], env, depth+1)
		return fmt.Sprintf("(=> %s %s)", fv.strengthen(st, e.Args[0], env, 0), cons)
	case e.Op == "call":
		if b := fv.expandPred(e); b != nil {
			return fv.evalGoal(st, b, env, depth+1)
		}
	case e.Op == "let":
		d := fv.evalSpec(e.Args[0], env)
		return fv.evalGoal(st, e.Args[1], env.with(e.Name, d), depth+1)
	case e.Op == "forall":
		if !smallConstRange(e) {
			lo := fv.evalSpec(e.Args[0], env)
			hi := fv.evalSpec(e.Args[1], env)
			sk := fv.fresh("sk_"+e.Name, "Int")
			st.addIdx(sk)
			body := fv.evalGoal(st, e.Args[2], env.with(e.Name, Val{T: sk, S: "Int"}), depth+1)
			return fmt.Sprintf("(=> (and (<= %s %s) (< %s %s)) %s)", lo.T, sk, sk, hi.T, body)
		}
	}
	return fv.evalBool(e, env)
}

func (st *State) addIdx(t string) {
	if t == "" || len(t) > 200 {
		return
	}
	for _, x := range st.idx {
		if x == t {
			return
		}
	}
	st.idx = append(st.idx, t)
}

// instances returns the instantiations of the registered quantified facts at the path's index terms.
func (st *State) instances() []string {
	var out []string
	idx := st.idx
	if len(idx) > 40 {
		idx = idx[len(idx)-40:]
	}
	for _, q := range st.qfacts {
		for _, t := range idx {
			f := fmt.Sprintf("(=> %s %s)", strings.ReplaceAll(q.rng, q.v, t), strings.ReplaceAll(q.body, q.v, t))
			if q.guard != "" {
				f = fmt.Sprintf("(=> %s %s)", q.guard, f)
			}
			out = append(out, f)
			if len(out) > 1500 {
				return out
			}
		}
	}
	return out
}

// strengthen evaluates a formula in hypothesis position (e.g. the antecedent
// of a goal) and conjoins the instances of its universally quantified
// conjuncts at the path's index terms (implied by the formula, hence sound).
func (fv *FV) strengthen(st *State, e *Expr, env *Env, depth int) string {
	base := fv.evalBool(e, env)
	tmp := &State{}
	tmp.idx = st.idx
	fv.collectQ(tmp, e, env, "", depth)
	inst := tmp.instances()
	if len(inst) == 0 {
		return base
	}
	return "(and " + base + " " + strings.Join(inst, " ") + ")"
}

// collectQ registers the quantified conjuncts of e (like assumeSpecG, without assuming anything).
func (fv *FV) collectQ(tmp *State, e *Expr, env *Env, guard string, depth int) {
	if depth > 30 {
		return
	}
	switch {
	case e.Op == "bin" && e.Name == "&&":
		fv.collectQ(tmp, e.Args[0], env, guard, depth+1)
		fv.collectQ(tmp, e.Args[1], env, guard, depth+1)
	case e.Op == "bin" && e.Name == "==>":
		a := fv.evalBool(e.Args[0], env)
		g := a
		if guard != "" {
			g = fmt.Sprintf("(and %s %s)", guard, a)
		}
		fv.collectQ(tmp, e.Args[1], env, g, depth+1)
	case e.Op == "old" && env.old != nil:
		// old(A): the quantified conjuncts of A, evaluated in the entry state
		n := *env
		n.st = env.old
		n.names = env.old.fr.names
		fv.collectQ(tmp, e.Args[0], &n, guard, depth+1)
	case e.Op == "call":
		if b := fv.expandPred(e); b != nil {
			fv.collectQ(tmp, b, env, guard, depth+1)
		}
	case e.Op == "forall":
		if !smallConstRange(e) {
			lo := fv.evalSpec(e.Args[0], env)
			hi := fv.evalSpec(e.Args[1], env)
			fv.nfresh++
			bn := fmt.Sprintf("%s!q%d", e.Name, fv.nfresh)
			body := fv.evalBool(e.Args[2], env.with(e.Name, Val{T: bn, S: "Int"}))
			rng := fmt.Sprintf("(and (<= %s %s) (< %s %s))", lo.T, bn, bn, hi.T)
			tmp.qfacts = append(tmp.qfacts, qfact{guard, bn, rng, body})
		}
	}
}

// skolemAntecedent evaluates the antecedent A of a hypothesis A ==> B. A
// universally quantified conjunct (forall k: P(k)) of A is replaced by its
// instance at a fresh constant: (forall k. P(k)) ==> B is equivalent to
// exists k. (P(k) ==> B), and the witness is named. The witness becomes an
// index term, so the path's universal facts are instantiated at it.
func (fv *FV) skolemAntecedent(st *State, e *Expr, env *Env, depth int) string {
	if depth > 30 {
		return fv.evalBool(e, env)
	}
	switch {
	case e.Op == "bin" && e.Name == "&&":
		return fmt.Sprintf("(and %s %s)", fv.skolemAntecedent(st, e.Args[0], env, depth+1), fv.skolemAntecedent(st, e.Args[1], env, depth+1))
	case e.Op == "call":
		if b := fv.expandPred(e); b != nil {
			return fv.skolemAntecedent(st, b, env, depth+1)
		}
	case e.Op == "forall":
		if !smallConstRange(e) {
			lo := fv.evalSpec(e.Args[0], env)
			hi := fv.evalSpec(e.Args[1], env)
			sk := fv.fresh("wit_"+e.Name, "Int")
			st.addIdx(sk)
			body := fv.evalBool(e.Args[2], env.with(e.Name, Val{T: sk, S: "Int"}))
			return fmt.Sprintf("(=> (and (<= %s %s) (< %s %s)) %s)", lo.T, sk, sk, hi.T, body)
		}
	}
	return fv.evalBool(e, env)
}
