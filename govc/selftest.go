package main

// govc selftest: apply each must-fail / must-stay-silent patch to a scratch
// copy of the repository and run the property's check against it.

import (
	"sync"
	"bufio"
	"encoding/json"
	"flag"
	"fmt"
	"os"
	"os/exec"
	"path/filepath"
	"sort"
	"strings"
	"time"
)

type mutantMeta struct {
	File     string
	Property string
	Expect   string // violation | silent
	Note     string
}

func readMutant(path string) mutantMeta {
	m := mutantMeta{File: path, Expect: "violation"}
	f, err := os.Open(path)
	if err != nil {
		return m
	}
	defer f.Close()
	sc := bufio.NewScanner(f)
	for sc.Scan() {
		l := sc.Text()
		if !strings.HasPrefix(l, "#") {
			break
		}
		l = strings.TrimSpace(strings.TrimPrefix(l, "#"))
		if strings.HasPrefix(l, "property:") {
			m.Property = strings.TrimSpace(strings.TrimPrefix(l, "property:"))
		} else if strings.HasPrefix(l, "expect:") {
			m.Expect = strings.TrimSpace(strings.TrimPrefix(l, "expect:"))
		} else if strings.HasPrefix(l, "note:") {
			m.Note = strings.TrimSpace(strings.TrimPrefix(l, "note:"))
		}
	}
	return m
}

func cmdSelftest(args []string) int {
	fs := flag.NewFlagSet("selftest", flag.ExitOnError)
	repo := fs.String("repo", "/repo", "")
	verif := fs.String("verif", "/verif", "")
	only := fs.String("only", "", "substring filter on patch names / property")
	dirs := fs.String("dirs", "selftest/mutants,selftest/neutral", "")
	jobs := fs.Int("j", 1, "cases run concurrently")
	fs.Parse(args)
	var files []string
	for _, d := range strings.Split(*dirs, ",") {
		m, _ := filepath.Glob(filepath.Join(*verif, d, "*.diff"))
		files = append(files, m...)
	}
	// seeded changes from independent agents: /verif/seeded/<id>/patch.diff + meta.json
	seeded, _ := filepath.Glob(filepath.Join(*verif, "seeded", "*", "patch.diff"))
	sort.Strings(files)
	sort.Strings(seeded)
	type result struct {
		Name, Property, Expect, Got string
		OK                         bool
		Secs                       float64
		Lines                      []string
	}
	var results []result
	bad := 0
	var mu sync.Mutex
	var wg sync.WaitGroup
	sem := make(chan struct{}, *jobs)
	var run0 func(name, patch, prop, expect string)
	run := func(name, patch, prop, expect string) {
		if *only != "" && !strings.Contains(name, *only) && prop != *only {
			return
		}
		wg.Add(1)
		sem <- struct{}{}
		go func() {
			defer wg.Done()
			defer func() { <-sem }()
			run0(name, patch, prop, expect)
		}()
	}
	run0 = func(name, patch, prop, expect string) {
		t0 := time.Now()
		tmp, _ := os.MkdirTemp("", "govcself")
		defer os.RemoveAll(tmp)
		scratch := filepath.Join(tmp, "repo")
		if out, err := exec.Command("cp", "-a", *repo, scratch).CombinedOutput(); err != nil {
			fmt.Println("copy failed:", string(out))
			mu.Lock()
			bad++
			mu.Unlock()
			return
		}
		cmd := exec.Command("git", "apply", "--whitespace=nowarn", patch)
		cmd.Dir = scratch
		out, err := cmd.CombinedOutput()
		if err != nil {
			// context drifted (e.g. a later fix: commit nearby): retry with fuzz
			pc := exec.Command("patch", "-p1", "--fuzz=3", "--no-backup-if-mismatch", "-i", patch)
			pc.Dir = scratch
			if out2, err2 := pc.CombinedOutput(); err2 == nil {
				err = nil
			} else {
				out = append(out, out2...)
			}
		}
		if err != nil {
			mu.Lock()
			fmt.Printf("%-40s patch does not apply: %s\n", name, strings.TrimSpace(string(out)))
			results = append(results, result{Name: name, Property: prop, Expect: expect, Got: "patch-failed"})
			bad++
			mu.Unlock()
			return
		}
		self, _ := os.Executable()
		c := exec.Command(self, "check", prop, "--repo", scratch, "--verif", *verif, "--out", filepath.Join(tmp, "out"))
		c.Env = goEnv()
		out, cerr := c.CombinedOutput()
		got := "silent"
		if cerr != nil {
			// a check that dies without saying VIOLATION is neither silent nor a detection
			got = "error"
		}
		var lines []string
		for _, l := range strings.Split(string(out), "\n") {
			if strings.HasPrefix(l, "VIOLATION") {
				got = "violation"
				if len(lines) < 4 {
					lines = append(lines, l)
				}
			}
		}
		ok := got == expect
		mu.Lock()
		defer mu.Unlock()
		if !ok {
			bad++
		}
		st := "ok  "
		if !ok {
			st = "FAIL"
		}
		fmt.Printf("%s %-45s property=%s expect=%s got=%s (%.0fs)\n", st, name, prop, expect, got, time.Since(t0).Seconds())
		for _, l := range lines {
			fmt.Println("      " + l)
		}
		results = append(results, result{name, prop, expect, got, ok, time.Since(t0).Seconds(), lines})
	}
	for _, f := range files {
		m := readMutant(f)
		if m.Property == "" {
			continue
		}
		for _, p := range strings.Split(m.Property, ",") {
			run(filepath.Base(f), f, strings.TrimSpace(p), m.Expect)
		}
	}
	for _, f := range seeded {
		dir := filepath.Dir(f)
		var meta struct {
			Property string `json:"property"`
			Expect   string `json:"expect"`
		}
		b, err := os.ReadFile(filepath.Join(dir, "meta.json"))
		if err != nil {
			continue
		}
		json.Unmarshal(b, &meta)
		if meta.Expect == "" {
			meta.Expect = "violation"
		}
		run("seeded/"+filepath.Base(dir), f, meta.Property, meta.Expect)
	}
	wg.Wait()
	sort.Slice(results, func(i, j int) bool {
		if results[i].Name != results[j].Name {
			return results[i].Name < results[j].Name
		}
		return results[i].Property < results[j].Property
	})
	b, _ := json.MarshalIndent(results, "", " ")
	os.MkdirAll(filepath.Join(*verif, "selftest"), 0o755)
	if *only == "" {
		os.WriteFile(filepath.Join(*verif, "selftest", "last_result.json"), b, 0o644)
	}
	fmt.Printf("selftest: %d cases, %d unexpected\n", len(results), bad)
	if bad > 0 {
		return 1
	}
	return 0
}
