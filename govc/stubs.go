package main

import (
	"os"
	"path/filepath"
)

func cmdSelftest(args []string) int { return 2 }

// setup: scratch dir, contracts, packages.
func (e *Engine) setup(verifDir string, gen bool, keep string) (func(), error) {
	tmp, err := os.MkdirTemp("", "govc")
	if err != nil {
		return func() {}, err
	}
	cleanup := func() { os.RemoveAll(tmp) }
	e.tmp = filepath.Join(tmp, "smt")
	if keep != "" {
		e.tmp = keep
	}
	os.MkdirAll(e.tmp, 0o755)
	if err := e.loadContracts(verifDir); err != nil {
		return cleanup, err
	}
	pats := []string{"github.com/parsyl/parquet", "github.com/parsyl/parquet/internal/rle", "github.com/parsyl/parquet/internal/bitpack"}
	if err := e.load(pats, e.repo); err != nil {
		return cleanup, err
	}
	return cleanup, nil
}
