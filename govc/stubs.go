package main

import (
	"fmt"
	"os"
	"os/exec"
	"path/filepath"
	"strings"
)


var corpus = []struct{ Dir, Type string }{
	{"alltypes", "AllTypes"},
	{"doc", "Document"},
	{"nest3", "Nest3"},
	{"deep", "Deep"},
}

func goEnv() []string {
	return append(os.Environ(), "GOFLAGS=-mod=mod", "GOPROXY=off", "GOSUMDB=off", "GOTOOLCHAIN=local")
}

func runCmd(dir string, name string, args ...string) (string, error) {
	cmd := exec.Command(name, args...)
	cmd.Dir = dir
	cmd.Env = goEnv()
	out, err := cmd.CombinedOutput()
	if err != nil {
		return string(out), fmt.Errorf("%s %s: %v\n%s", name, strings.Join(args, " "), err, out)
	}
	return string(out), nil
}

// generateCorpus builds parquetgen from the working tree and generates code
// for the struct corpus into a scratch module.
func (e *Engine) generateCorpus(verifDir, tmp string) (string, error) {
	gen := filepath.Join(tmp, "gen")
	bin := filepath.Join(tmp, "parquetgen")
	if _, err := runCmd(e.repo, "go", "build", "-o", bin, "./cmd/parquetgen"); err != nil {
		return "", fmt.Errorf("building parquetgen: %v", err)
	}
	os.MkdirAll(gen, 0o755)
	gomod := fmt.Sprintf("module %s\n\ngo 1.20\n\nrequire github.com/parsyl/parquet v0.0.0\n\nreplace github.com/parsyl/parquet => %s\n", genModule, e.repo)
	os.WriteFile(filepath.Join(gen, "go.mod"), []byte(gomod), 0o644)
	if b, err := os.ReadFile(filepath.Join(e.repo, "go.sum")); err == nil {
		os.WriteFile(filepath.Join(gen, "go.sum"), b, 0o644)
	}
	for _, c := range corpus {
		recTypeNames[c.Type] = true
		d := filepath.Join(gen, c.Dir)
		os.MkdirAll(d, 0o755)
		src, err := os.ReadFile(filepath.Join(verifDir, "corpus", c.Dir, c.Dir+".go"))
		if err != nil {
			return "", err
		}
		os.WriteFile(filepath.Join(d, c.Dir+".go"), src, 0o644)
		if _, err := runCmd(d, bin, "-input", c.Dir+".go", "-type", c.Type, "-package", c.Dir, "-output", "parquet.go"); err != nil {
			return "", fmt.Errorf("parquetgen on corpus %s: %v", c.Dir, err)
		}
	}
	return gen, nil
}

// setup: scratch dir, contracts, packages.
func (e *Engine) setup(verifDir string, gen bool, keep string) (func(), error) {
	tmp, err := os.MkdirTemp("", "govc")
	if err != nil {
		return func() {}, err
	}
	cleanup := func() { os.RemoveAll(tmp) }
	e.tmp = filepath.Join(tmp, "smt")
	if keep != "" {
		e.tmp = keep
	}
	os.MkdirAll(e.tmp, 0o755)
	if err := e.loadContracts(verifDir); err != nil {
		return cleanup, err
	}
	pats := []string{"github.com/parsyl/parquet", "github.com/parsyl/parquet/internal/rle", "github.com/parsyl/parquet/internal/bitpack"}
	dir := e.repo
	if gen {
		g, err := e.generateCorpus(verifDir, tmp)
		if err != nil {
			return cleanup, err
		}
		e.genRoot = g
		dir = g
		pats = append(pats, "./...")
	}
	if err := e.load(pats, dir); err != nil {
		return cleanup, err
	}
	return cleanup, nil
}
