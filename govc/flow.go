package main

// Control flow: path enumeration, loop cut points, returns.

import (
	"go/token"
	"strings"
	"fmt"
	"go/types"
	"sort"

	"golang.org/x/tools/go/ssa"
)

type loopInfo struct {
	idx    int
	blocks map[*ssa.BasicBlock]bool
}

// analyseLoops finds natural loops (headers with back edges).
func analyseLoops(fn *ssa.Function) map[*ssa.BasicBlock]*loopInfo {
	out := map[*ssa.BasicBlock]*loopInfo{}
	n := 0
	for _, b := range fn.Blocks {
		var backs []*ssa.BasicBlock
		for _, p := range b.Preds {
			if b.Dominates(p) {
				backs = append(backs, p)
			}
		}
		if len(backs) == 0 {
			continue
		}
		n++
		li := &loopInfo{idx: n, blocks: map[*ssa.BasicBlock]bool{b: true}}
		// natural loop: nodes reaching a back-edge source without passing the header
		var work []*ssa.BasicBlock
		for _, p := range backs {
			if !li.blocks[p] {
				li.blocks[p] = true
				work = append(work, p)
			}
		}
		for len(work) > 0 {
			x := work[len(work)-1]
			work = work[:len(work)-1]
			for _, p := range x.Preds {
				if !li.blocks[p] {
					li.blocks[p] = true
					work = append(work, p)
				}
			}
		}
		out[b] = li
	}
	return out
}

func (fv *FV) loopsOf(fn *ssa.Function) map[*ssa.BasicBlock]*loopInfo {
	if l, ok := fv.eng.loops[fn]; ok {
		return l
	}
	l := analyseLoops(fn)
	fv.eng.loops[fn] = l
	return l
}

func (fv *FV) contractOf(fn *ssa.Function) *FuncContract {
	return fv.eng.contractFor(fn)
}

// heaps (by sort) possibly modified inside the given blocks
func (fv *FV) modifiedHeaps(fn *ssa.Function, blocks map[*ssa.BasicBlock]bool) (map[string]bool, bool) {
	out := map[string]bool{}
	all := false
	for b := range blocks {
		for _, in := range b.Instrs {
			switch x := in.(type) {
			case *ssa.Store:
				pt := x.Addr.Type().Underlying().(*types.Pointer)
				// the root heap is not known syntactically for interior pointers: find root
				root := rootPointee(x.Addr)
				if root != nil {
					out[fv.u.sortOf(root, fv.bv)] = true
				} else {
					out[fv.u.sortOf(pt.Elem(), fv.bv)] = true
				}
			case *ssa.MapUpdate:
				mt := x.Map.Type().Underlying().(*types.Map)
				ks, vs := fv.u.sortOf(mt.Key(), fv.bv), fv.u.sortOf(mt.Elem(), fv.bv)
				out["(Array "+ks+" Bool)"] = true
				out["(Array "+ks+" "+vs+")"] = true
			case *ssa.Alloc:
				out[fv.u.sortOf(x.Type().Underlying().(*types.Pointer).Elem(), fv.bv)] = true
			case *ssa.MakeSlice:
				out["(Array Int "+fv.u.sortOf(x.Type().Underlying().(*types.Slice).Elem(), fv.bv)+")"] = true
			case *ssa.MakeMap, *ssa.MakeInterface, *ssa.Convert:
				// allocation of fresh objects only (Convert: []byte(s))
				if c, ok := in.(*ssa.Convert); ok {
					if _, ok := c.Type().Underlying().(*types.Slice); ok {
						out["(Array Int Int)"] = true
					}
				}
				if mm, ok := in.(*ssa.MakeMap); ok {
					mt := mm.Type().Underlying().(*types.Map)
					ks, vs := fv.u.sortOf(mt.Key(), fv.bv), fv.u.sortOf(mt.Elem(), fv.bv)
					out["(Array "+ks+" Bool)"] = true
					out["(Array "+ks+" "+vs+")"] = true
				}
			case ssa.CallInstruction:
				// any call may modify anything its contract allows: be conservative
				all = true
			}
		}
	}
	return out, all
}

// rootPointee finds the type of the root object a FieldAddr/IndexAddr chain points into.
func rootPointee(v ssa.Value) types.Type {
	for {
		switch x := v.(type) {
		case *ssa.FieldAddr:
			v = x.X
			continue
		case *ssa.IndexAddr:
			switch bt := x.X.Type().Underlying().(type) {
			case *types.Slice:
				return types.NewArray(bt.Elem(), 0)
			case *types.Pointer:
				v = x.X
				continue
			}
			return nil
		}
		if pt, ok := v.Type().Underlying().(*types.Pointer); ok {
			return pt.Elem()
		}
		return nil
	}
}

func (fv *FV) execBlock(st *State, b *ssa.BasicBlock, pred *ssa.BasicBlock) {
	st.steps++
	if st.steps > 4000 {
		fv.unsupportedf("path too long in %s", st.fr.fn.Name())
	}
	fn := st.fr.fn
	loops := fv.loopsOf(fn)
	li, isHeader := loops[b]
	// phi nodes from the incoming edge
	bindPhis := func() {
		if pred == nil {
			return
		}
		pi := -1
		for i, p := range b.Preds {
			if p == pred {
				pi = i
			}
		}
		var news []Val
		var phis []*ssa.Phi
		for _, in := range b.Instrs {
			phi, ok := in.(*ssa.Phi)
			if !ok {
				break
			}
			phis = append(phis, phi)
			news = append(news, fv.asTerm(st, fv.valOf(st, phi.Edges[pi])))
		}
		for i, phi := range phis {
			v := news[i]
			v.Typ = phi.Type()
			st.fr.vals[phi] = v
			if phi.Comment != "" {
				st.fr.names[phi.Comment] = v
				if isHeader {
					// nested loops: <name>$<loop ordinal> names this loop's own variable
					st.fr.names[fmt.Sprintf("%s$%d", phi.Comment, li.idx)] = v
				}
			}
		}
		if isHeader {
			fv.bindIter(st, b, li)
		}
	}
	if isHeader {
		fc := fv.contractOf(fn)
		var lc *LoopContract
		if fc != nil {
			lc = fc.Loops[li.idx]
			if lc == nil {
				lc = fc.Loops[-1] // wildcard loop contract
			}
		}
		if lc == nil {
			fv.unsupportedf("loop #%d of %s has no invariant (block %d)", li.idx, fn.String(), b.Index)
		}
		fromInside := pred != nil && li.blocks[pred]
		bindPhis()
		env := fv.envFor(st)
		kind := "entry"
		if fromInside {
			kind = "preserved"
		}
		for _, inv := range lc.Invariants {
			if inv.Free {
				continue
			}
			g, stale := fv.tryGoal(st, inv.E, env)
			if stale != "" {
				// the invariant names something the code no longer has: that is a failed obligation of
				// this invariant (and of the properties it is tagged with), not of the whole function
				fv.addObl(st, "invariant", fmt.Sprintf("loop#%d:%s:%s@%s", li.idx, inv.Name, kind, fn.Name()), "false", "the invariant no longer matches the code ("+stale+"): "+inv.Src, inv.Tags)
				continue
			}
			fv.addObl(st, "invariant", fmt.Sprintf("loop#%d:%s:%s@%s", li.idx, inv.Name, kind, fn.Name()), g, inv.Src, inv.Tags)
		}
		if fromInside {
			if lc.Decreases != nil {
				// variant must have decreased and be bounded below
				d := fv.evalSpec(lc.Decreases, env)
				old := st.fr.variants[b]
				fv.addObl(st, "invariant", fmt.Sprintf("loop#%d:decreases@%s", li.idx, fn.Name()), fmt.Sprintf("(and (< %s %s) (>= %s 0))", d.T, old, old), "decreases", nil)
			}
			fv.paths++
			return // path ends at the cut point
		}
		// havoc loop-modified state
		mods, all := fv.modifiedHeaps(fn, li.blocks)
		if lc.HasMod {
			fv.applyModifies(st, lc.Modifies, env)
		} else if all {
			// calls inside: every heap may change, within the function's frame
			keys := make([]string, 0)
			for k := range fv.heapsUsed {
				keys = append(keys, k)
			}
			fv.havocLoopHeaps(st, keys, li.blocks)
			fv.havocGhostInFrame(st)
		} else {
			keys := make([]string, 0, len(mods))
			for k := range mods {
				keys = append(keys, k)
			}
			fv.havocLoopHeaps(st, keys, li.blocks)
		}
		na := fv.fresh("alloc", "Int")
		st.assume(fmt.Sprintf("(>= %s %s)", na, st.alloc))
		// a function that does not declare "allocates T" creates no object of the tracked type T,
		// in a loop or elsewhere (each allocation site has its own obligation)
		if tr := fv.trackedTypes(); len(tr) > 0 {
			for n, id := range tr {
				if !fv.fc.Allocates[n] {
					st.assume(fmt.Sprintf("(forall ((r Int)) (! (=> (and (> r alloc!entry) (<= r %s)) (not (= (rtype r) %d))) :pattern ((rtype r))))", na, id))
				}
			}
		}
		st.alloc = na
		// objects that exist at the loop head only reference objects that exist at the loop head
		// (the havocked content of loop-modified heaps is otherwise unconstrained)
		{
			keys := make([]string, 0, len(fv.heapsUsed))
			for k := range fv.heapsUsed {
				keys = append(keys, k)
			}
			sortStrings(keys)
			for _, k := range keys {
				h, ok := st.heaps[k]
				if !ok {
					continue
				}
				if conds := fv.wfCond("(select "+h+" r)", fv.heapsUsed[k], na, 0); len(conds) > 0 {
					st.assume(fmt.Sprintf("(forall ((r Int)) (! (=> (<= r %s) (and %s)) :pattern ((select %s r))))", na, strings.Join(conds, " "), h))
				}
			}
		}
		for _, in := range b.Instrs {
			phi, ok := in.(*ssa.Phi)
			if !ok {
				break
			}
			s := fv.u.sortOf(phi.Type(), fv.bv)
			nv := Val{T: fv.fresh(fn.Name()+"_"+phi.Name(), s), S: s, Typ: phi.Type()}
			st.fr.vals[phi] = nv
			if phi.Comment != "" {
				st.fr.names[phi.Comment] = nv
				st.fr.names[fmt.Sprintf("%s$%d", phi.Comment, li.idx)] = nv
			}
			fv.assumeWF(st, nv)
		}
		fv.bindIter(st, b, li)
		env = fv.envFor(st)
		for _, inv := range lc.Invariants {
			fv.tryAssume(st, inv.E, env)
		}
		if lc.Decreases != nil {
			d := fv.evalSpec(lc.Decreases, env)
			if st.fr.variants == nil {
				st.fr.variants = map[*ssa.BasicBlock]string{}
			}
			st.fr.variants[b] = fv.define(st, "variant", "Int", d.T)
		}
	} else {
		bindPhis()
	}
	fv.execFrom(st, b, firstNonPhi(b))
}

func firstNonPhi(b *ssa.BasicBlock) int {
	for i, in := range b.Instrs {
		if _, ok := in.(*ssa.Phi); !ok {
			return i
		}
	}
	return len(b.Instrs)
}

func (fv *FV) havocAllHeaps(st *State) {
	keys := make([]string, 0)
	for k := range fv.heapsUsed {
		keys = append(keys, k)
	}
	for k := range st.heaps {
		if _, ok := fv.heapsUsed[k]; !ok {
			keys = append(keys, k)
		}
	}
	sort.Strings(keys)
	for _, k := range keys {
		fv.havocHeap(st, k)
	}
	st.havocAll++
}

func (fv *FV) execFrom(st *State, b *ssa.BasicBlock, i int) {
	for ; i < len(b.Instrs); i++ {
		in := b.Instrs[i]
		switch x := in.(type) {
		case *ssa.If:
			c := fv.valOf(st, x.Cond)
			st2 := st.clone()
			st.assume(c.T)
			st2.assume("(not " + c.T + ")")
			fv.execBlock(st, b.Succs[0], b)
			fv.execBlock(st2, b.Succs[1], b)
			return
		case *ssa.Jump:
			fv.execBlock(st, b.Succs[0], b)
			return
		case *ssa.Return:
			var rs []Val
			for _, r := range x.Results {
				rs = append(rs, fv.valOf(st, r))
			}
			st.fr.ret(st, rs)
			return
		case *ssa.Panic:
			fv.safety(st, "explicit-panic", fmt.Sprintf("b%d", b.Index), "false")
			fv.paths++
			return
		default:
			j := i
			if !fv.execInstr(st, in, func(s *State) { fv.execFrom(s, b, j+1) }) {
				return
			}
		}
	}
}


// tryGoal evaluates a loop invariant in goal position; a contract error (an identifier the code
// no longer has) is returned instead of aborting the function.
func (fv *FV) tryGoal(st *State, e *Expr, env *Env) (g string, stale string) {
	defer func() {
		if r := recover(); r != nil {
			if sf, ok := r.(specFail); ok {
				stale = string(sf)
				return
			}
			panic(r)
		}
	}()
	return fv.evalGoal(st, e, env, 0), ""
}

// tryAssume assumes a loop invariant at the loop head unless it cannot be evaluated any more
// (it then has a failed obligation of its own, see tryGoal).
func (fv *FV) tryAssume(st *State, e *Expr, env *Env) {
	// dry run on a copy first: a partly evaluated invariant must not leave conjuncts assumed
	// whose obligation (the whole invariant) is reported as failed
	ok := func() (ok bool) {
		defer func() {
			if r := recover(); r != nil {
				if _, isSF := r.(specFail); isSF {
					ok = false
					return
				}
				panic(r)
			}
		}()
		tmp := st.clone()
		tenv := *env
		tenv.st = tmp
		fv.assumeSpec(tmp, e, &tenv)
		return true
	}()
	if ok {
		fv.assumeSpec(st, e, env)
	}
}


// bindIter gives loop contracts a name for the number of completed iterations that does not
// depend on how the loop is written: `iter` (and `iter$<loop ordinal>` from inner loops) is
// rangeindex+1 for a range loop over a slice, and the counter itself for a loop whose header has
// exactly one integer variable that starts at the constant 0 and is incremented by 1 on every
// way back to the header.
func (fv *FV) bindIter(st *State, b *ssa.BasicBlock, li *loopInfo) {
	var found []Val
	for _, in := range b.Instrs {
		phi, ok := in.(*ssa.Phi)
		if !ok {
			break
		}
		bt, ok := phi.Type().Underlying().(*types.Basic)
		if !ok || bt.Info()&types.IsInteger == 0 {
			continue
		}
		v, ok := st.fr.vals[phi]
		if !ok {
			continue
		}
		if phi.Comment == "rangeindex" {
			found = []Val{{T: fmt.Sprintf("(+ %s 1)", v.T), S: v.S, Typ: phi.Type()}}
			break
		}
		isCounter := len(phi.Edges) >= 2
		for i, e := range phi.Edges {
			if li.blocks[b.Preds[i]] {
				// back edge: phi + 1
				bo, ok := e.(*ssa.BinOp)
				if !ok || bo.Op != token.ADD || bo.X != ssa.Value(phi) {
					isCounter = false
					break
				}
				c, ok := bo.Y.(*ssa.Const)
				if !ok || c.Value == nil || c.Int64() != 1 {
					isCounter = false
					break
				}
			} else {
				c, ok := e.(*ssa.Const)
				if !ok || c.Value == nil || c.Int64() != 0 {
					isCounter = false
					break
				}
			}
		}
		if isCounter {
			found = append(found, v)
		}
	}
	if len(found) == 1 {
		st.fr.names["iter"] = found[0]
		st.fr.names[fmt.Sprintf("iter$%d", li.idx)] = found[0]
	} else {
		delete(st.fr.names, "iter")
	}
}
