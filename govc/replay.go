package main

// Replay of failed obligations against the real code.

import (
	"bytes"
	"context"
	"encoding/json"
	"fmt"
	"os"
	"os/exec"
	"path/filepath"
	"regexp"
	"strconv"
	"strings"
	"time"
)

type ReplayResult struct {
	Body      map[string]interface{}
	Confirmed bool
	Summary   string
}

type modelQuery struct {
	Label string
	Term  string
}

// getValues asks the solver that found the model for the values of terms.
func (e *Engine) getValues(ob *Obligation, qs []modelQuery) map[string]string {
	out := map[string]string{}
	if len(qs) == 0 {
		return out
	}
	smt := strings.Replace(ob.SMT, "(set-option :smt.mbqi false)\n(set-option :auto_config false)\n", "", 1)
	var b strings.Builder
	b.WriteString(smt)
	for _, q := range qs {
		fmt.Fprintf(&b, "(get-value (%s))\n", q.Term)
	}
	f := filepath.Join(e.tmp, "getvalue_"+sanitize(ob.Func+ob.Name)+".smt2")
	os.WriteFile(f, []byte(b.String()), 0o644)
	for _, solver := range []string{"z3-new", "z3"} {
		ctx, cancel := context.WithTimeout(context.Background(), 30*time.Second)
		cmd := exec.CommandContext(ctx, solver, "-T:25", f)
		var ob2 bytes.Buffer
		cmd.Stdout = &ob2
		cmd.Run()
		cancel()
		lines := strings.Split(ob2.String(), "\n")
		if len(lines) == 0 || strings.TrimSpace(lines[0]) != "sat" {
			continue
		}
		// each get-value answer: ((term value)) possibly multi-line; parse sequentially
		rest := strings.Join(lines[1:], "\n")
		vals := splitTopLevelSexps(rest)
		for i, q := range qs {
			if i < len(vals) {
				out[q.Label] = lastSexpElem(vals[i])
			}
		}
		return out
	}
	return out
}

func splitTopLevelSexps(s string) []string {
	var out []string
	depth, start := 0, -1
	for i, c := range s {
		switch c {
		case '(':
			if depth == 0 {
				start = i
			}
			depth++
		case ')':
			depth--
			if depth == 0 && start >= 0 {
				out = append(out, s[start:i+1])
				start = -1
			}
		}
	}
	return out
}

// "((term value))" -> value
func lastSexpElem(s string) string {
	s = strings.TrimSpace(s)
	s = strings.TrimSuffix(strings.TrimPrefix(s, "(("), "))")
	// value is the last top-level element
	depth := 0
	for i := len(s) - 1; i >= 0; i-- {
		switch s[i] {
		case ')':
			depth++
		case '(':
			depth--
			if depth == 0 {
				return strings.TrimSpace(s[i:])
			}
		case ' ', '\n':
			if depth == 0 {
				return strings.TrimSpace(s[i+1:])
			}
		}
	}
	return s
}

// smtNum parses "5", "(- 5)", "#x0f", "#b0101", "(_ bv5 8)"
func smtNum(s string) (int64, bool) {
	s = strings.TrimSpace(s)
	if strings.HasPrefix(s, "#x") {
		v, err := strconv.ParseUint(s[2:], 16, 64)
		return int64(v), err == nil
	}
	if strings.HasPrefix(s, "#b") {
		v, err := strconv.ParseUint(s[2:], 2, 64)
		return int64(v), err == nil
	}
	if strings.HasPrefix(s, "(_ bv") {
		f := strings.Fields(s[5:])
		v, err := strconv.ParseUint(f[0], 10, 64)
		return int64(v), err == nil
	}
	if strings.HasPrefix(s, "(-") {
		v, ok := smtNum(strings.TrimSuffix(strings.TrimSpace(s[2:]), ")"))
		return -v, ok
	}
	v, err := strconv.ParseInt(s, 10, 64)
	return v, err == nil
}

type replayDriver struct {
	match *regexp.Regexp
	run   func(e *Engine, ob *Obligation, o checkOpts, body map[string]interface{}) (confirmed bool, summary string)
}

var replayDrivers []replayDriver

func (e *Engine) replay(ob *Obligation, o checkOpts) ReplayResult {
	body := map[string]interface{}{
		"obligation":    oblBase(ob),
		"obligation_id": ob.Name,
		"function":      ob.Func,
		"kind":          ob.Kind,
		"clause":        ob.Src,
		"solver":        ob.Res.Solver,
		"solver_status": ob.Res.Status,
		"solver_output": truncate(ob.Res.Out, 6000),
		"repo":          o.repo,
	}
	var all []map[string]interface{}
	for _, r := range ob.All {
		all = append(all, map[string]interface{}{"solver": r.Solver, "status": r.Status, "secs": round3(r.Secs)})
	}
	body["all_solvers"] = all
	if ob.Res.Status == "sat" && len(ob.Query) > 0 {
		vals := e.getValues(ob, ob.Query)
		body["model_inputs"] = vals
	}
	res := ReplayResult{Body: body, Summary: fmt.Sprintf("%s: %s (%s)", ob.Kind, ob.Src, ob.Res.Status)}
	for _, d := range replayDrivers {
		if d.match.MatchString(ob.Func) {
			c, s := d.run(e, ob, o, body)
			res.Confirmed = c
			res.Summary += "\n" + s
			body["replay"] = s
			body["confirmed_on_real_code"] = c
			break
		}
	}
	if !res.Confirmed {
		if _, ok := body["replay"]; !ok {
			body["replay"] = "no replay driver for this obligation class; the obligation was discharged on the unchanged tree and fails now"
		}
	}
	return res
}

func truncate(s string, n int) string {
	if len(s) > n {
		return s[:n] + "\n...[truncated]"
	}
	return s
}

// runOverlayTest injects an in-package test file into pkgDir (relative to repo) and runs it.
func runOverlayTest(repo, pkgRel, testSrc, runName string, tags string) (string, error) {
	tmp, err := os.MkdirTemp("", "govcreplay")
	if err != nil {
		return "", err
	}
	defer os.RemoveAll(tmp)
	tf := filepath.Join(tmp, "zz_govc_replay_test.go")
	os.WriteFile(tf, []byte(testSrc), 0o644)
	ov := map[string]map[string]string{"Replace": {filepath.Join(repo, pkgRel, "zz_govc_replay_test.go"): tf}}
	ovb, _ := json.Marshal(ov)
	ovf := filepath.Join(tmp, "ov.json")
	os.WriteFile(ovf, ovb, 0o644)
	ctx, cancel := context.WithTimeout(context.Background(), 120*time.Second)
	defer cancel()
	args := []string{"test", "-overlay", ovf, "-vet=off", "-count=1", "-timeout", "60s", "-run", runName}
	if tags != "" {
		args = append(args, "-tags="+tags)
	}
	args = append(args, "./"+pkgRel)
	cmd := exec.CommandContext(ctx, "go", args...)
	cmd.Dir = repo
	cmd.Env = append(os.Environ(), "GOFLAGS=-mod=mod", "GOPROXY=off", "GOSUMDB=off", "GOTOOLCHAIN=local")
	out, err := cmd.CombinedOutput()
	return string(out), err
}

// runOverlayTestV: like runOverlayTest with -v (to collect log lines).
func runOverlayTestV(repo, pkgRel, testSrc, runName string) (string, error) {
	tmp, err := os.MkdirTemp("", "govcbounded")
	if err != nil {
		return "", err
	}
	defer os.RemoveAll(tmp)
	tf := filepath.Join(tmp, "zz_govc_bounded_test.go")
	os.WriteFile(tf, []byte(testSrc), 0o644)
	ov := map[string]map[string]string{"Replace": {filepath.Join(repo, pkgRel, "zz_govc_bounded_test.go"): tf}}
	ovb, _ := json.Marshal(ov)
	ovf := filepath.Join(tmp, "ov.json")
	os.WriteFile(ovf, ovb, 0o644)
	ctx, cancel := context.WithTimeout(context.Background(), 150*time.Second)
	defer cancel()
	cmd := exec.CommandContext(ctx, "go", "test", "-overlay", ovf, "-vet=off", "-count=1", "-timeout", "120s", "-v", "-run", "^"+runName+"$", "./"+pkgRel)
	cmd.Dir = repo
	cmd.Env = append(os.Environ(), "GOFLAGS=-mod=mod", "GOPROXY=off", "GOSUMDB=off", "GOTOOLCHAIN=local")
	out, err := cmd.CombinedOutput()
	return string(out), err
}

func cmdReplay(args []string) int {
	if len(args) < 1 {
		fmt.Fprintln(os.Stderr, "usage: govc replay <file>")
		return 2
	}
	b, err := os.ReadFile(args[0])
	if err != nil {
		fmt.Fprintln(os.Stderr, err)
		return 2
	}
	var body map[string]interface{}
	json.Unmarshal(b, &body)
	fmt.Printf("obligation: %v\nclause: %v\nsolver: %v (%v)\n", body["obligation"], body["clause"], body["solver"], body["solver_status"])
	if src, ok := body["replay_test"].(string); ok {
		repo, _ := body["repo"].(string)
		pkg, _ := body["replay_pkg"].(string)
		tags, _ := body["replay_tags"].(string)
		out, err := runOverlayTest(repo, pkg, src, "TestGovcReplay", tags)
		fmt.Println(out)
		if err != nil {
			fmt.Println("replay: the real code fails on the recorded input")
			return 1
		}
		fmt.Println("replay: the real code passes on the recorded input")
		return 0
	}
	fmt.Printf("replay: %v\n", body["replay"])
	return 0
}
