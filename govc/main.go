package main

import (
	"flag"
	"fmt"
	"os"
	"sort"
	"strings"
	"time"
)

func main() {
	if len(os.Args) < 2 {
		fmt.Fprintln(os.Stderr, "usage: govc check <prop> | vf <funckey> | selftest | replay <file>")
		os.Exit(2)
	}
	switch os.Args[1] {
	case "vf":
		cmdVF(os.Args[2:])
	case "check":
		os.Exit(cmdCheck(os.Args[2:]))
	case "selftest":
		os.Exit(cmdSelftest(os.Args[2:]))
	case "replay":
		os.Exit(cmdReplay(os.Args[2:]))
	case "corpus-levels":
		cmdCorpusLevels(os.Args[2:])
	case "dyn":
		// developer command: run one dynamic driver (test name) against the tree
		repo := "/repo"
		if len(os.Args) > 3 {
			repo = os.Args[3]
		}
		e := &Engine{}
		r := e.runDynTest(os.Args[2], false, checkOpts{repo: repo, verif: "/verif", tier: os.Getenv("VERIF_TIER")})
		fmt.Println(r.Output)
		if r.Confirmed {
			os.Exit(1)
		}
	default:
		fmt.Fprintln(os.Stderr, "unknown command")
		os.Exit(2)
	}
}

// vf: developer command, verify functions matching a substring and print every obligation.
func cmdVF(args []string) {
	fs := flag.NewFlagSet("vf", flag.ExitOnError)
	repo := fs.String("repo", "/repo", "")
	verif := fs.String("verif", "/verif", "")
	keep := fs.String("keep", "", "keep SMT files in dir")
	gen := fs.Bool("gen", false, "include generated corpus")
	timeout := fs.Int("timeout", 10, "")
	allsafe := fs.Bool("allsafety", false, "")
	fs.Parse(args)
	e := newEngine(*repo)
	e.timeout = *timeout
	e.allSafety = *allsafe
	if os.Getenv("GOVC_GEN") != "" {
		*gen = true
	}
	cleanup, err := e.setup(*verif, *gen, *keep)
	defer cleanup()
	if err != nil {
		fmt.Fprintln(os.Stderr, "setup:", err)
		os.Exit(2)
	}
	if len(fs.Args()) >= 3 && (fs.Arg(0) == "functype" || fs.Arg(0) == "iface") {
		// vf functype|iface <contract key> <function substring>
		for _, w := range e.refinementsOf(fs.Arg(0), fs.Arg(1)) {
			if !strings.Contains(w.fn.String(), fs.Arg(2)) {
				continue
			}
			r := e.verifyFunction(w.fn, w.fc)
			e.discharge(r.Obls)
			fmt.Printf("== %s refines %s paths=%d obligations=%d\n", w.fn.String(), fs.Arg(1), r.Paths, len(r.Obls))
			if r.Err != "" {
				fmt.Printf("   ERROR: %s\n", r.Err)
			}
			for _, o := range r.Obls {
				st := "ok  "
				if !o.ok() {
					st = "FAIL"
				}
				fmt.Printf("   %s %-60s %-8s %-7s %.2fs %dB\n", st, o.Name, o.Res.Status, o.Res.Solver, o.Res.Secs, o.Bytes)
			}
		}
		return
	}
	var keys []string
	for k := range e.db.Funcs {
		for _, pat := range fs.Args() {
			if strings.Contains(k, pat) {
				keys = append(keys, k)
				break
			}
		}
	}
	sort.Strings(keys)
	bad := 0
	for _, k := range keys {
		fc := e.db.Funcs[k]
		if fc.Trusted || fc.NoBody {
			continue
		}
		fns := e.funcs[k]
		if len(fns) == 0 {
			fmt.Printf("%s: NO SUCH FUNCTION\n", k)
			bad++
			continue
		}
		for _, fn := range fns {
			if pf := os.Getenv("GOVC_PKG"); pf != "" && !strings.Contains(fn.String(), pf) {
				continue
			}
			t0 := time.Now()
			r := e.verifyFunction(fn, fc)
			t1 := time.Now()
			e.discharge(r.Obls)
			if os.Getenv("GOVC_DEBUG") != "" {
				fmt.Fprintf(os.Stderr, "timing %s: gen %.2fs discharge %.2fs\n", k, t1.Sub(t0).Seconds(), time.Since(t1).Seconds())
			}
			fmt.Printf("== %s (%s) paths=%d obligations=%d %.1fs\n", k, fn.String(), r.Paths, len(r.Obls), r.Secs)
			if r.Err != "" {
				fmt.Printf("   ERROR: %s\n", r.Err)
				bad++
			}
			for _, o := range r.Obls {
				st := "ok  "
				if o.Kind == "pathcover" {
					if o.Res.Status == "unsat" {
						fmt.Printf("   dead %-60s (unreachable return path)\n", o.Name)
					}
					continue
				}
				if !o.ok() {
					st = "FAIL"
					bad++
				}
				fmt.Printf("   %s %-60s %-8s %-7s %.2fs %dB tags=%v\n", st, o.Name, o.Res.Status, o.Res.Solver, o.Res.Secs, o.Bytes, o.Tags)
			}
			if len(r.Assumptions) > 0 {
				fmt.Printf("   assumptions: %v\n", r.Assumptions)
			}
			if len(r.Trusted) > 0 {
				fmt.Printf("   trusted: %v\n", r.Trusted)
			}
		}
	}
	var notes []string
	for n := range e.notes {
		notes = append(notes, n)
	}
	sort.Strings(notes)
	for _, n := range notes {
		fmt.Println("note:", n)
	}
	fmt.Printf("failures: %d\n", bad)
}
