package main

// Reading contract files (//@ lines) into a database.

import (
	"fmt"
	"go/types"
	"os"
	"path/filepath"
	"regexp"
	"sort"
	"strconv"
	"strings"
)

type Clause struct {
	Kind string   // requires | ensures | invariant | lemma
	Tags []string // property ids; empty = support clause
	E    *Expr
	Src  string
	Name string // e.g. ensures#2
	Free bool   // assumed, never checked here (labelled in evidence)
}

type LoopContract struct {
	Invariants []Clause
	Modifies   []*Expr
	HasMod     bool
	Decreases  *Expr
}

type GhostAssign struct {
	LHS *Expr
	RHS *Expr
}

type FuncContract struct {
	Key        string // pkgpath::relname
	Mode       string // int | bv
	Requires   []Clause
	Ensures    []Clause
	Modifies   []*Expr
	HasMod     bool
	Safety     []string // tags claiming all thin safety obligations
	HasSafety  bool
	Trusted    bool // contract assumed; body not checked
	NoBody     bool
	GhostEntry []GhostAssign
	GhostExit  []GhostAssign
	SafetyKinds []string
	Loops      map[int]*LoopContract
	Inline     bool
	File       string
	Split      []string
	Pure       bool
	Lemmas     []Clause
	Refines    string     // "" | "functype" | "iface": synthesized refinement contract
	RefOf      string     // key of the refined contract
	IfaceType  types.Type // for iface refinements
	ParamNames []string   // interface method parameter names
	Verify     []string   // properties under which support obligations are checked explicitly
	DirectRead bool       // may call Read on the user's source directly (accounts for short reads)
	Allocates  map[string]bool // tracked types this function may allocate objects of
}

type Pred struct {
	Name   string
	Params []string
	Body   *Expr
}

type GhostField struct {
	Struct string // struct type name (unqualified)
	Name   string
	Sort   string
}

type DB struct {
	Funcs   map[string]*FuncContract
	Ifaces  map[string]*FuncContract // pkgpath::Type.Method
	FnTypes map[string]*FuncContract // signature key
	Preds   map[string]*Pred
	GFields map[string]*GhostField // Struct.Name
	GGlobal map[string]string      // name -> sort
	SpecFns map[string]*SpecFn
	Axioms  []Clause
	GGroups map[string][]string
	GNat    map[string]bool
	FnConsts map[string]map[string]int // fnconst <name> <pkg.func> <value>: per-function constants (from an independent oracle)
	Tracked []string // type names whose objects are tracked by dynamic type (rtype)
	Files   []string
	patKeys []string
}

type SpecFn struct {
	Name   string
	Params []string // sorts
	Ret    string
	PTypes []types.Type // Go types of parameters declared by Go type name
	PNames []string // recfn: parameter names
	Body   *Expr    // recfn: defining equation, unfolded once per application term
	Depth  int      // recfn[n]: unfolding depth (default 1)
	Nat    bool     // recfn[nat]: result is never negative (the induction step is checked by the solver)
}

func newDB() *DB {
	return &DB{Funcs: map[string]*FuncContract{}, Ifaces: map[string]*FuncContract{}, FnTypes: map[string]*FuncContract{},
		Preds: map[string]*Pred{}, GFields: map[string]*GhostField{}, GGlobal: map[string]string{}, SpecFns: map[string]*SpecFn{}, GGroups: map[string][]string{}, GNat: map[string]bool{}, FnConsts: map[string]map[string]int{}}
}

var tagRe = regexp.MustCompile(`^([a-z-]+)(\[([A-Za-z0-9, ]*)\])?\s*(.*)$`)

func ghostSort(s string) string {
	s = strings.TrimSpace(s)
	switch s {
	case "int", "u8", "u64", "i64":
		return "Int"
	case "bool":
		return "Bool"
	case "str":
		return "Str"
	case "slice":
		return "Slice"
	case "iface":
		return "Iface"
	}
	if strings.HasPrefix(s, "array<") && strings.HasSuffix(s, ">") {
		inner := ghostSort(s[6 : len(s)-1])
		if strings.HasPrefix(inner, "go:") {
			return "goarr:" + inner[3:]
		}
		return "(Array Int " + inner + ")"
	}
	if strings.Contains(s, ".") && !strings.HasPrefix(s, "(") {
		// a Go type name (pkg.T): resolved to its sort at first use
		return "go:" + s
	}
	return s
}

// loadContractFile parses one file. pkgPath is the default package for keys
// without an explicit "pkg::" prefix. For generated packages pkgPath is "GEN".
func (db *DB) loadContractFile(path, pkgPath string) error {
	raw, err := os.ReadFile(path)
	if err != nil {
		return err
	}
	db.Files = append(db.Files, path)
	isGo := strings.HasSuffix(path, ".go")
	// collect logical lines: join continuation lines (lines not starting with a keyword)
	var lines []string
	keywords := map[string]bool{"func": true, "loop": true, "mode": true, "requires": true, "ensures": true, "invariant": true,
		"modifies": true, "safety": true, "trusted": true, "ghost-entry": true, "pred": true, "ghost": true, "template": true,
		"end": true, "iface": true, "functype": true, "decreases": true, "inline": true, "specfn": true, "axiom": true,
		"split": true, "verify": true, "direct-read": true, "ghost-exit": true, "recfn": true, "free-ensures": true, "free-requires": true, "lemma": true, "pure": true, "free-invariant": true, "tracked": true, "allocates": true, "fnconst": true}
	for _, l := range strings.Split(string(raw), "\n") {
		t := strings.TrimSpace(l)
		if isGo {
			if !strings.HasPrefix(t, "//@") {
				continue
			}
			t = strings.TrimSpace(t[3:])
		} else {
			if strings.HasPrefix(t, "//") || strings.HasPrefix(t, ";") {
				continue
			}
		}
		if t == "" {
			continue
		}
		// strip trailing comment " // ..."
		if i := strings.Index(t, " // "); i >= 0 {
			t = strings.TrimSpace(t[:i])
		}
		first := t
		if i := strings.IndexAny(t, " \t["); i >= 0 {
			first = t[:i]
		}
		if keywords[first] || len(lines) == 0 {
			lines = append(lines, t)
		} else {
			lines[len(lines)-1] += " " + t
		}
	}
	// template expansion
	var expanded []string
	for i := 0; i < len(lines); i++ {
		l := lines[i]
		if strings.HasPrefix(l, "template ") {
			// template T in a b c
			parts := strings.Fields(l)
			if len(parts) < 4 || parts[2] != "in" {
				return fmt.Errorf("%s: bad template line %q", path, l)
			}
			v := parts[1]
			vals := parts[3:]
			j := i + 1
			var body []string
			for j < len(lines) && !strings.HasPrefix(lines[j], "end template") {
				body = append(body, lines[j])
				j++
			}
			for _, val := range vals {
				// val may be a:b:c for multiple substitution variants {T} {T1} {T2}
				sub := strings.Split(val, ":")
				for _, b := range body {
					x := strings.ReplaceAll(b, "{"+v+"}", sub[0])
					for k := 1; k < len(sub); k++ {
						x = strings.ReplaceAll(x, "{"+v+strconv.Itoa(k)+"}", sub[k])
					}
					expanded = append(expanded, x)
				}
			}
			i = j
			continue
		}
		expanded = append(expanded, l)
	}
	var cur *FuncContract
	var curLoop *LoopContract
	qual := func(k string) string {
		if strings.Contains(k, "::") {
			return k
		}
		return pkgPath + "::" + k
	}
	for _, l := range expanded {
		m := tagRe.FindStringSubmatch(l)
		if m == nil {
			return fmt.Errorf("%s: cannot parse line %q", path, l)
		}
		kw, tagstr, rest := m[1], m[3], strings.TrimSpace(m[4])
		var tags []string
		for _, t := range strings.Split(tagstr, ",") {
			if t = strings.TrimSpace(t); t != "" {
				tags = append(tags, t)
			}
		}
		parse := func(s string) (*Expr, error) {
			e, err := parseSpecExpr(s)
			if err != nil {
				return nil, fmt.Errorf("%s: %v", path, err)
			}
			return e, nil
		}
		switch kw {
		case "func", "iface", "functype":
			cur = &FuncContract{Key: qual(rest), Loops: map[int]*LoopContract{}, File: path, Mode: "int"}
			curLoop = nil
			switch kw {
			case "func":
				if old, ok := db.Funcs[cur.Key]; ok {
					cur = old // allow extension in another file
					cur.NoBody = false
				} else {
					db.Funcs[cur.Key] = cur
				}
			case "iface":
				cur.Trusted = true
				db.Ifaces[cur.Key] = cur
			case "functype":
				cur.Key = rest
				cur.Trusted = true
				db.FnTypes[rest] = cur
			}
		case "loop":
			i := strings.LastIndex(rest, "#")
			if i < 0 {
				return fmt.Errorf("%s: loop key needs #n: %q", path, rest)
			}
			n, err := strconv.Atoi(rest[i+1:])
			if rest[i+1:] == "*" {
				n, err = -1, nil
			}
			if err != nil {
				return fmt.Errorf("%s: %v", path, err)
			}
			k := qual(rest[:i])
			fc, ok := db.Funcs[k]
			if !ok {
				fc = &FuncContract{Key: k, Loops: map[int]*LoopContract{}, File: path, Mode: "int", NoBody: true}
				db.Funcs[k] = fc
			}
			cur = fc
			curLoop = &LoopContract{}
			fc.Loops[n] = curLoop
		case "mode":
			cur.Mode = rest
		case "trusted":
			cur.Trusted = true
		case "inline":
			cur.Inline = true
		case "pure":
			cur.Pure = true
		case "tracked":
			db.Tracked = append(db.Tracked, strings.Trim(rest, "\" "))
		case "allocates":
			if cur.Allocates == nil {
				cur.Allocates = map[string]bool{}
			}
			cur.Allocates[strings.Trim(rest, "\" ")] = true
		case "split":
			cur.Split = append(cur.Split, rest)
		case "verify":
			cur.Verify = append(cur.Verify, tags...)
		case "direct-read":
			cur.DirectRead = true
		case "safety":
			cur.Safety = append(cur.Safety, tags...)
			cur.HasSafety = true
			cur.SafetyKinds = append(cur.SafetyKinds, strings.Fields(rest)...)
		case "requires", "ensures", "invariant", "free-ensures", "free-requires", "lemma", "free-invariant":
			e, err := parse(rest)
			if err != nil {
				return err
			}
			free := strings.HasPrefix(kw, "free-")
			kind := strings.TrimPrefix(kw, "free-")
			for _, c := range conjuncts(e) {
				cl := Clause{Kind: kind, Tags: tags, E: c, Src: c.String(), Free: free}
				switch kind {
				case "requires":
					cl.Name = fmt.Sprintf("requires#%d", len(cur.Requires)+1)
					cur.Requires = append(cur.Requires, cl)
				case "ensures":
					cl.Name = fmt.Sprintf("ensures#%d", len(cur.Ensures)+1)
					cur.Ensures = append(cur.Ensures, cl)
				case "lemma":
					cl.Name = fmt.Sprintf("lemma#%d", len(cur.Lemmas)+1)
					cur.Lemmas = append(cur.Lemmas, cl)
				case "invariant":
					if curLoop == nil {
						return fmt.Errorf("%s: invariant outside loop", path)
					}
					cl.Name = fmt.Sprintf("invariant#%d", len(curLoop.Invariants)+1)
					curLoop.Invariants = append(curLoop.Invariants, cl)
				}
			}
		case "decreases":
			e, err := parse(rest)
			if err != nil {
				return err
			}
			curLoop.Decreases = e
		case "modifies":
			var list []*Expr
			if rest != "nothing" {
				for _, part := range splitTop(rest) {
					e, err := parse(part)
					if err != nil {
						return err
					}
					if e.Op == "id" && db.GGroups[e.Name] != nil {
						// a ghost group stands for its members
						for _, g := range db.GGroups[e.Name] {
							list = append(list, &Expr{Op: "id", Name: g})
						}
						continue
					}
					list = append(list, e)
				}
			}
			if curLoop != nil {
				curLoop.Modifies = append(curLoop.Modifies, list...)
				curLoop.HasMod = true
			} else {
				cur.Modifies = append(cur.Modifies, list...)
				cur.HasMod = true
			}
		case "ghost-entry", "ghost-exit":
			for _, part := range strings.Split(rest, ";") {
				lr := strings.SplitN(part, ":=", 2)
				if len(lr) != 2 {
					return fmt.Errorf("%s: bad ghost-entry %q", path, part)
				}
				le, err := parse(lr[0])
				if err != nil {
					return err
				}
				re, err := parse(lr[1])
				if err != nil {
					return err
				}
				if kw == "ghost-exit" {
					cur.GhostExit = append(cur.GhostExit, GhostAssign{le, re})
				} else {
					cur.GhostEntry = append(cur.GhostEntry, GhostAssign{le, re})
				}
			}
		case "pred":
			// pred name(a, b) := body
			lr := strings.SplitN(rest, ":=", 2)
			if len(lr) != 2 {
				return fmt.Errorf("%s: bad pred %q", path, rest)
			}
			head := strings.TrimSpace(lr[0])
			i := strings.Index(head, "(")
			name := head[:i]
			var params []string
			for _, p := range strings.Split(strings.TrimSuffix(head[i+1:], ")"), ",") {
				if p = strings.TrimSpace(p); p != "" {
					params = append(params, strings.Fields(p)[0])
				}
			}
			body, err := parse(lr[1])
			if err != nil {
				return err
			}
			db.Preds[name] = &Pred{name, params, body}
		case "ghost":
			f := strings.Fields(rest)
			if len(f) >= 3 && f[0] == "field" {
				parts := strings.SplitN(f[1], ".", 2)
				db.GFields[f[1]] = &GhostField{parts[0], parts[1], ghostSort(strings.Join(f[2:], " "))}
			} else if len(f) >= 3 && f[0] == "global" {
				if f[2] == "nat" {
					// a counter: never negative (assumed wherever the global gets a fresh value)
					db.GNat[f[1]] = true
					f[2] = "int"
				}
				db.GGlobal[f[1]] = ghostSort(strings.Join(f[2:], " "))
			} else if len(f) >= 3 && f[0] == "group" {
				// ghost group name member...: "modifies name" stands for all members
				db.GGroups[f[1]] = f[2:]
			} else {
				return fmt.Errorf("%s: bad ghost decl %q", path, rest)
			}
		case "specfn":
			// specfn name(Int, Int) Int
			i := strings.Index(rest, "(")
			j := strings.LastIndex(rest, ")")
			sf := &SpecFn{Name: strings.TrimSpace(rest[:i]), Ret: ghostSort(rest[j+1:])}
			for _, p := range splitTop(rest[i+1 : j]) {
				if p = strings.TrimSpace(p); p != "" {
					sf.Params = append(sf.Params, ghostSort(p))
				}
			}
			db.SpecFns[sf.Name] = sf
		case "recfn":
			// recfn name(a sort, b sort) sort := body
			lr := strings.SplitN(rest, ":=", 2)
			if len(lr) != 2 {
				return fmt.Errorf("%s: bad recfn %q", path, rest)
			}
			head := strings.TrimSpace(lr[0])
			i := strings.Index(head, "(")
			j := strings.LastIndex(head, ")")
			sf := &SpecFn{Name: strings.TrimSpace(head[:i]), Ret: ghostSort(head[j+1:])}
			for _, p := range splitTop(head[i+1 : j]) {
				f := strings.Fields(p)
				if len(f) < 2 {
					return fmt.Errorf("%s: recfn parameter needs a sort: %q", path, p)
				}
				sf.PNames = append(sf.PNames, f[0])
				sf.Params = append(sf.Params, ghostSort(strings.Join(f[1:], " ")))
			}
			body, err := parse(lr[1])
			if err != nil {
				return err
			}
			sf.Body = body
			sf.Depth = 1
			for _, tg := range tags {
				if tg == "nat" {
					sf.Nat = true
				} else {
					fmt.Sscanf(tg, "%d", &sf.Depth)
				}
			}
			db.SpecFns[sf.Name] = sf
		case "fnconst":
			f := strings.Fields(rest)
			if len(f) != 3 {
				return fmt.Errorf("%s: bad fnconst %q", path, rest)
			}
			var v int
			if _, err := fmt.Sscanf(f[2], "%d", &v); err != nil {
				return fmt.Errorf("%s: bad fnconst value %q", path, rest)
			}
			if db.FnConsts[f[0]] == nil {
				db.FnConsts[f[0]] = map[string]int{}
			}
			db.FnConsts[f[0]][f[1]] = v
		case "axiom":
			e, err := parse(rest)
			if err != nil {
				return err
			}
			db.Axioms = append(db.Axioms, Clause{Kind: "axiom", E: e, Src: rest})
		case "end":
		default:
			return fmt.Errorf("%s: unknown keyword %q", path, kw)
		}
	}
	return nil
}

// split on top-level commas
func splitTop(s string) []string {
	var out []string
	depth := 0
	last := 0
	for i, c := range s {
		switch c {
		case '(', '[', '<':
			depth++
		case ')', ']', '>':
			depth--
		case ',':
			if depth == 0 {
				out = append(out, strings.TrimSpace(s[last:i]))
				last = i + 1
			}
		}
	}
	if strings.TrimSpace(s[last:]) != "" {
		out = append(out, strings.TrimSpace(s[last:]))
	}
	return out
}

func (db *DB) loadDir(dir, pkg string) error {
	ents, err := os.ReadDir(dir)
	if err != nil {
		return nil
	}
	var names []string
	for _, e := range ents {
		if strings.HasSuffix(e.Name(), ".spec") {
			names = append(names, e.Name())
		}
	}
	sort.Strings(names)
	for _, n := range names {
		if err := db.loadContractFile(filepath.Join(dir, n), pkg); err != nil {
			return err
		}
	}
	return nil
}

func hasTag(tags []string, t string) bool {
	for _, x := range tags {
		if x == t {
			return true
		}
	}
	return false
}

func (db *DB) patternKeys() []string {
	if db.patKeys == nil {
		db.patKeys = []string{}
		for k := range db.Funcs {
			if strings.Contains(k, "*") && !strings.Contains(k, "(*") {
				db.patKeys = append(db.patKeys, k)
			} else if strings.Count(k, "*") > strings.Count(k, "(*") {
				db.patKeys = append(db.patKeys, k)
			}
		}
		sort.Strings(db.patKeys)
	}
	return db.patKeys
}
