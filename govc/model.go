package main

// Sorts, values, heap model.

import (
	"fmt"
	"go/types"
	"math/big"
	"sort"
	"strings"
)

type Val struct {
	T     string // SMT term
	S     string // SMT sort
	Typ   types.Type
	Loc   *Loc  // meta-level pointer (interior); T is empty then
	Tuple []Val // multi-value
}

type step struct {
	field int    // >=0: struct field index
	idx   string // index term when field < 0
	sort  string // sort of the value after this step
	ssort string // sort of the container (struct sort for field, array sort for index)
}

type Loc struct {
	heap string // sort of the root content (heap key)
	ref  string
	path []step
	typ  types.Type // pointee type
}

type StructInfo struct {
	Sort   string
	Ctor   string
	Fields []string // accessor names
	FSorts []string
	T      *types.Struct
	Named  string
	GoType types.Type
}

type Universe struct {
	structs   map[string]*StructInfo // by sort name
	structOf  map[string]*StructInfo // by types string (+mode)
	order     []*StructInfo
	typeIDs   map[string]int
	db        *DB
	strLits   map[string]string
	strOrder  []string
	fnIDs     map[string]int
	heapSorts map[string]bool
	isLibType func(types.Type) bool
	libIDs    []int
}

func newUniverse(db *DB) *Universe {
	return &Universe{structs: map[string]*StructInfo{}, structOf: map[string]*StructInfo{}, typeIDs: map[string]int{}, db: db,
		strLits: map[string]string{"": "str_empty"}, fnIDs: map[string]int{}, heapSorts: map[string]bool{}}
}

func mangle(s string) string {
	var b strings.Builder
	for _, c := range s {
		if c >= 'a' && c <= 'z' || c >= 'A' && c <= 'Z' || c >= '0' && c <= '9' || c == '_' {
			b.WriteRune(c)
		} else {
			b.WriteByte('_')
		}
	}
	return b.String()
}

func shortTypeName(t types.Type) string {
	return types.TypeString(t, pkgAlias)
}

func bvSort(w int) string { return fmt.Sprintf("(_ BitVec %d)", w) }

func intWidth(b *types.Basic) (w int, signed bool) {
	switch b.Kind() {
	case types.Int8:
		return 8, true
	case types.Int16:
		return 16, true
	case types.Int32, types.UntypedRune:
		return 32, true
	case types.Int64, types.Int, types.UntypedInt:
		return 64, true
	case types.Uint8:
		return 8, false
	case types.Uint16:
		return 16, false
	case types.Uint32:
		return 32, false
	case types.Uint64, types.Uint, types.Uintptr:
		return 64, false
	}
	return 0, false
}

func isIntType(t types.Type) bool {
	b, ok := t.Underlying().(*types.Basic)
	return ok && b.Info()&types.IsInteger != 0
}

// sortOf maps a Go type to an SMT sort. bv selects bit-vector integers.
func (u *Universe) sortOf(t types.Type, bv bool) string {
	switch x := t.Underlying().(type) {
	case *types.Basic:
		switch {
		case x.Info()&types.IsInteger != 0:
			if bv {
				w, _ := intWidth(x)
				return bvSort(w)
			}
			return "Int"
		case x.Info()&types.IsBoolean != 0:
			return "Bool"
		case x.Info()&types.IsString != 0:
			return "Str"
		case x.Kind() == types.Float32:
			return "(_ FloatingPoint 8 24)"
		case x.Kind() == types.Float64 || x.Kind() == types.UntypedFloat:
			return "(_ FloatingPoint 11 53)"
		case x.Kind() == types.UnsafePointer || x.Kind() == types.UntypedNil:
			return "Int"
		}
	case *types.Pointer, *types.Map, *types.Signature, *types.Chan:
		return "Int"
	case *types.Slice:
		return "Slice"
	case *types.Interface:
		return "Iface"
	case *types.Array:
		return "(Array Int " + u.sortOf(x.Elem(), bv) + ")"
	case *types.Struct:
		return u.structInfo(t, bv).Sort
	case *types.Tuple:
		return "Tuple"
	}
	panic(unsupported("type " + t.String()))
}

type unsupported string

func (u *Universe) structInfo(t types.Type, bv bool) *StructInfo {
	key := t.String()
	if bv {
		key += "#bv"
	}
	if si, ok := u.structOf[key]; ok {
		return si
	}
	st := t.Underlying().(*types.Struct)
	name := "S_" + mangle(shortTypeName(t))
	if bv {
		name += "_bv"
	}
	if len(name) > 60 {
		name = fmt.Sprintf("%s_%d", name[:50], len(u.structs))
	}
	for {
		if _, dup := u.structs[name]; !dup {
			break
		}
		name += "x"
	}
	si := &StructInfo{Sort: name, Ctor: "mk_" + name, T: st, Named: shortTypeName(t), GoType: t}
	u.structOf[key] = si
	u.structs[name] = si
	for i := 0; i < st.NumFields(); i++ {
		f := st.Field(i)
		si.Fields = append(si.Fields, fmt.Sprintf("%s_%s", name, mangle(f.Name())))
		si.FSorts = append(si.FSorts, u.sortOf(f.Type(), bv))
	}
	u.order = append(u.order, si) // dependencies were registered first (post-order)
	return si
}

func (u *Universe) typeID(t types.Type) int {
	k := t.String()
	if id, ok := u.typeIDs[k]; ok {
		return id
	}
	id := len(u.typeIDs) + 1
	u.typeIDs[k] = id
	if u.isLibType != nil && u.isLibType(t) {
		u.libIDs = append(u.libIDs, id)
	}
	return id
}

func heapName(sort string) string {
	return "H_" + mangle(sort)
}

// zero value term of a sort
func (u *Universe) zero(sort string) string {
	switch sort {
	case "Int":
		return "0"
	case "Bool":
		return "false"
	case "Str":
		return "str_empty"
	case "Slice":
		return "(mk-slice 0 0 0 0)"
	case "Iface":
		return "(mk-iface 0 0)"
	case "(_ FloatingPoint 8 24)":
		return "(_ +zero 8 24)"
	case "(_ FloatingPoint 11 53)":
		return "(_ +zero 11 53)"
	}
	if strings.HasPrefix(sort, "(_ BitVec ") {
		var w int
		fmt.Sscanf(sort, "(_ BitVec %d)", &w)
		return fmt.Sprintf("(_ bv0 %d)", w)
	}
	if strings.HasPrefix(sort, "(Array Int ") {
		el := sort[len("(Array Int ") : len(sort)-1]
		return fmt.Sprintf("((as const %s) %s)", sort, u.zero(el))
	}
	if si, ok := u.structs[sort]; ok {
		if len(si.Fields) == 0 {
			return si.Ctor
		}
		var a []string
		for _, fs := range si.FSorts {
			a = append(a, u.zero(fs))
		}
		return "(" + si.Ctor + " " + strings.Join(a, " ") + ")"
	}
	panic(unsupported("zero of sort " + sort))
}

func elemSortOfArray(sort string) string {
	if strings.HasPrefix(sort, "(Array Int ") {
		return sort[len("(Array Int ") : len(sort)-1]
	}
	panic("not an array sort: " + sort)
}

func (u *Universe) strLit(s string) string {
	if n, ok := u.strLits[s]; ok {
		return n
	}
	if s == "" {
		u.strLits[s] = "str_empty"
		return "str_empty"
	}
	n := fmt.Sprintf("strlit_%d", len(u.strLits))
	u.strLits[s] = n
	u.strOrder = append(u.strOrder, s)
	return n
}

// prelude emits the fixed declarations and all struct datatypes.
func (u *Universe) prelude(heaps []string, db *DB, usedSpec map[string]bool) string {
	var b strings.Builder
	b.WriteString("(declare-datatypes ((Slice 0)) (((mk-slice (sref Int) (soff Int) (slen Int) (scap Int)))))\n")
	b.WriteString("(declare-datatypes ((Iface 0)) (((mk-iface (ityp Int) (ival Int)))))\n")
	b.WriteString("(declare-sort Str 0)\n(declare-fun str_len (Str) Int)\n(declare-fun str_lt (Str Str) Bool)\n(declare-const str_empty Str)\n")
	b.WriteString("(declare-fun str_bytes (Str) (Array Int Int))\n(declare-fun str_of (( Array Int Int) Int Int) Str)\n(declare-fun str_cat (Str Str) Str)\n")
	b.WriteString("(declare-fun str_join ((Array Int Str) Int Int Str) Str)\n")
	b.WriteString("(assert (= (str_len str_empty) 0))\n")
	b.WriteString("(assert (forall ((s Str)) (! (>= (str_len s) 0) :pattern ((str_len s)))))\n")
	b.WriteString("(assert (forall ((s Str)) (! (not (str_lt s s)) :pattern ((str_lt s s)))))\n")
	b.WriteString("(assert (forall ((a Str) (b Str)) (! (or (str_lt a b) (= a b) (str_lt b a)) :pattern ((str_lt a b)))))\n")
	b.WriteString("(assert (forall ((a Str) (b Str)) (! (not (and (str_lt a b) (str_lt b a))) :pattern ((str_lt a b)))))\n")
	b.WriteString("(assert (forall ((a Str) (b Str) (c Str)) (! (=> (and (str_lt a b) (str_lt b c)) (str_lt a c)) :pattern ((str_lt a b) (str_lt b c)))))\n")
	// string literals: distinct, known lengths
	lits := append([]string{}, u.strOrder...)
	for _, s := range lits {
		n := u.strLits[s]
		fmt.Fprintf(&b, "(declare-const %s Str)\n(assert (= (str_len %s) %d))\n", n, n, len(s))
		if len(s) <= 16 {
			// a byte window equals the literal iff it has its length and its bytes
			conj := []string{fmt.Sprintf("(= n %d)", len(s))}
			for i := 0; i < len(s); i++ {
				conj = append(conj, fmt.Sprintf("(= (select a (+ off %d)) %d)", i, s[i]))
				fmt.Fprintf(&b, "(assert (= (select (str_bytes %s) %d) %d))\n", n, i, s[i])
			}
			fmt.Fprintf(&b, "(assert (forall ((a (Array Int Int)) (off Int) (n Int)) (! (= (= (str_of a off n) %s) (and %s)) :pattern ((str_of a off n)))))\n", n, strings.Join(conj, " "))
		}
	}
	if len(lits) > 0 {
		names := []string{"str_empty"}
		for _, s := range lits {
			names = append(names, u.strLits[s])
		}
		fmt.Fprintf(&b, "(assert (distinct %s))\n", strings.Join(names, " "))
		// concrete order between literals
		sorted := append([]string{""}, lits...)
		sort.Strings(sorted)
		for i := 0; i+1 < len(sorted); i++ {
			fmt.Fprintf(&b, "(assert (str_lt %s %s))\n", u.strLits[sorted[i]], u.strLits[sorted[i+1]])
		}
	}
	for _, si := range u.order {
		fmt.Fprintf(&b, "(declare-datatypes ((%s 0)) (((%s", si.Sort, si.Ctor)
		for i, f := range si.Fields {
			fmt.Fprintf(&b, " (%s %s)", f, si.FSorts[i])
		}
		b.WriteString("))))\n")
	}
	b.WriteString("(declare-fun f32bits ((_ FloatingPoint 8 24)) Int)\n(declare-fun f64bits ((_ FloatingPoint 11 53)) Int)\n")
	b.WriteString("(declare-fun box_any (Int Int) Int)\n(declare-fun unbox_any (Int) Int)\n")
	b.WriteString("(assert (forall ((t Int) (v Int)) (! (= (unbox_any (box_any t v)) v) :pattern ((box_any t v)))))\n")
	// closed world: the dynamic types declared in the library are exactly these
	lib := []string{"false"}
	for _, id := range u.libIDs {
		lib = append(lib, fmt.Sprintf("(= x %d)", id))
	}
	fmt.Fprintf(&b, "(define-fun lib_type ((x Int)) Bool (or %s))\n", strings.Join(lib, " "))
	b.WriteString("(define-fun pow2 ((x Int)) Int (ite (= x 0) 1 (ite (= x 1) 2 (ite (= x 2) 4 (ite (= x 3) 8 (ite (= x 4) 16 (ite (= x 5) 32 (ite (= x 6) 64 (ite (= x 7) 128 (ite (= x 8) 256 0))))))))))\n")
	names := make([]string, 0, len(db.SpecFns))
	for n := range db.SpecFns {
		names = append(names, n)
	}
	sort.Strings(names)
	for _, n := range names {
		sf := db.SpecFns[n]
		if strings.Contains(strings.Join(sf.Params, " "), "go:") || strings.Contains(strings.Join(sf.Params, " "), "goarr:") {
			continue // signature mentions a Go type that was never needed in this VC
		}
		fmt.Fprintf(&b, "(declare-fun %s (%s) %s)\n", sf.Name, strings.Join(sf.Params, " "), sf.Ret)
	}
	return b.String()
}

func intLit(v *big.Int) string {
	if v.Sign() < 0 {
		return "(- " + new(big.Int).Neg(v).String() + ")"
	}
	return v.String()
}

func bvLit(v *big.Int, w int) string {
	m := new(big.Int).Lsh(big.NewInt(1), uint(w))
	x := new(big.Int).Mod(v, m)
	return fmt.Sprintf("(_ bv%s %d)", x.String(), w)
}

// pkgAlias: package qualifier used in sort names and typeid()/cast() names;
// the thrift schema package is also called "parquet", so it is aliased "sch".
func pkgAlias(p *types.Package) string {
	if strings.HasSuffix(p.Path(), "parsyl/parquet/schema") {
		return "sch"
	}
	return p.Name()
}
