package main

// Symbolic execution of go/ssa instructions.

import (
	"fmt"
	"os"
	"go/ast"
	"go/constant"
	"go/token"
	"go/types"
	"math"
	"math/big"
	"sort"
	"strings"

	"golang.org/x/tools/go/ssa"
)

func newBig(i int64) *big.Int { return big.NewInt(i) }

func (fv *FV) unsupportedf(format string, a ...interface{}) {
	panic(unsupported(fmt.Sprintf(format, a...)))
}

func (fv *FV) addObl(st *State, kind, name, goal, src string, tags []string) {
	if goal == "true" {
		return
	}
	var hyps []string
	if kind == "frame" {
		for _, h := range st.pc {
			if !strings.HasPrefix(h, contentTag) {
				hyps = append(hyps, h)
			}
		}
	} else {
		hyps = append(append([]string(nil), st.pc...), st.instances()...)
	}
	o := &Obligation{Func: fv.fc.Key, Name: name, Kind: kind, Tags: tags, Hyps: hyps, Goal: goal, Src: src, Expect: "unsat"}
	fv.obls = append(fv.obls, o)
	// the skolem constants of this goal mean nothing to later obligations: instantiating
	// hypotheses at them only bloats those conditions
	if strings.Contains(goal, "sk_") {
		kept := st.idx[:0:0]
		for _, t := range st.idx {
			if !strings.Contains(t, "sk_") {
				kept = append(kept, t)
			}
		}
		st.idx = kept
	}
}

func (fv *FV) safety(st *State, what, at, goal string) {
	claimed := fv.fc.HasSafety
	if claimed && len(fv.fc.SafetyKinds) > 0 {
		claimed = false
		for _, k := range fv.fc.SafetyKinds {
			if k == what {
				claimed = true
			}
		}
	}
	if !claimed && !fv.eng.allSafety {
		// still assume so later obligations are not polluted
		st.assume(goal)
		return
	}
	fv.addObl(st, "safety", fmt.Sprintf("safe:%s@%s", what, at), goal, what, fv.fc.Safety)
	st.assume(goal)
}

func (fv *FV) valOf(st *State, v ssa.Value) Val {
	switch x := v.(type) {
	case *ssa.Const:
		return fv.constVal(x)
	case *ssa.Function:
		return fv.funcVal(x)
	case *ssa.Global:
		if who, mut := fv.eng.mutableGlobals[x]; mut && fv.eng.inScope(st.fr.fn) {
			// C13: the function depends on package-level state that the library itself mutates
			fv.addObl(st, "ensures", fmt.Sprintf("noglobal:%s@%s", x.Name(), st.fr.fn.Name()), "false", "package-level variable "+x.String()+" is written by "+who+" and used here: instances share mutable state", []string{"C13"})
		}
		n := "glob_" + mangle(x.Pkg.Pkg.Name()+"_"+x.Name())
		if !fv.declS[n] {
			fv.declare(n, "Int")
			fv.decls = append(fv.decls, fmt.Sprintf("(assert (and (> %s 0) (<= %s alloc!entry)))", n, n))
		}
		return Val{T: n, S: "Int", Typ: x.Type()}
	}
	if r, ok := st.fr.vals[v]; ok {
		return r
	}
	panic(unsupported(fmt.Sprintf("no value for %s (%T) in %s", v.Name(), v, st.fr.fn.Name())))
}

func (fv *FV) funcVal(f *ssa.Function) Val {
	k := f.String()
	id, ok := fv.u.fnIDs[k]
	if !ok {
		id = len(fv.u.fnIDs) + 1000
		fv.u.fnIDs[k] = id
		fv.eng.fnByID[id] = f
	}
	ax := fmt.Sprintf("(assert (= (fn_of %d) %d))", id, id)
	if !fv.declS[ax] {
		fv.declS[ax] = true
		fv.decls = append(fv.decls, ax)
	}
	return Val{T: fmt.Sprint(id), S: "Int", Typ: f.Type()}
}

func (fv *FV) constVal(c *ssa.Const) Val {
	t := c.Type()
	sort := fv.u.sortOf(t, fv.bv)
	if c.Value == nil {
		return Val{T: fv.u.zero(sort), S: sort, Typ: t}
	}
	switch b := t.Underlying().(type) {
	case *types.Basic:
		switch {
		case b.Info()&types.IsInteger != 0:
			v, _ := new(big.Int).SetString(c.Value.ExactString(), 10)
			if v == nil {
				iv := constant.ToInt(c.Value)
				v, _ = new(big.Int).SetString(iv.ExactString(), 10)
			}
			if fv.bv {
				w, _ := intWidth(b)
				return Val{T: bvLit(v, w), S: sort, Typ: t}
			}
			return Val{T: intLit(v), S: sort, Typ: t}
		case b.Info()&types.IsBoolean != 0:
			if constant.BoolVal(c.Value) {
				return Val{T: "true", S: "Bool", Typ: t}
			}
			return Val{T: "false", S: "Bool", Typ: t}
		case b.Info()&types.IsString != 0:
			return Val{T: fv.u.strLit(constant.StringVal(c.Value)), S: "Str", Typ: t}
		case b.Kind() == types.Float32:
			f, _ := constant.Float32Val(c.Value)
			return Val{T: fmt.Sprintf("((_ to_fp 8 24) #x%08x)", math.Float32bits(f)), S: sort, Typ: t}
		case b.Kind() == types.Float64 || b.Kind() == types.UntypedFloat:
			f, _ := constant.Float64Val(c.Value)
			return Val{T: fmt.Sprintf("((_ to_fp 11 53) #x%016x)", math.Float64bits(f)), S: sort, Typ: t}
		}
	}
	panic(unsupported("constant of type " + t.String()))
}

// ---- integer helpers (int mode)

func pow2str(n int) string {
	b := newBig(1)
	b.Lsh(b, uint(n))
	return b.String()
}

func wrapTo(x string, w int, signed bool) string {
	if signed {
		return fmt.Sprintf("(- (mod (+ %s %s) %s) %s)", x, pow2str(w-1), pow2str(w), pow2str(w-1))
	}
	return fmt.Sprintf("(mod %s %s)", x, pow2str(w))
}

// toUnsigned view of an int-mode value of width w
func toUns(x string, w int, signed bool) string {
	if !signed {
		return x
	}
	return fmt.Sprintf("(mod %s %s)", x, pow2str(w))
}

func fromUns(x string, w int, signed bool) string {
	if !signed {
		return x
	}
	return fmt.Sprintf("(ite (>= %s %s) (- %s %s) %s)", x, pow2str(w-1), x, pow2str(w), x)
}

// bits [lo,hi) of non-negative x as a number shifted down
func bitsOf(x string, lo, hi int) string {
	t := x
	if lo > 0 {
		t = fmt.Sprintf("(div %s %s)", x, pow2str(lo))
	}
	return fmt.Sprintf("(mod %s %s)", t, pow2str(hi-lo))
}

// blocks of set bits of constant c within width w
func bitBlocks(c *big.Int, w int) [][2]int {
	var out [][2]int
	i := 0
	for i < w {
		if c.Bit(i) == 1 {
			j := i
			for j < w && c.Bit(j) == 1 {
				j++
			}
			out = append(out, [2]int{i, j})
			i = j
		} else {
			i++
		}
	}
	return out
}

func constBig(v ssa.Value) *big.Int {
	c, ok := v.(*ssa.Const)
	if !ok || c.Value == nil {
		return nil
	}
	if b, ok := c.Type().Underlying().(*types.Basic); !ok || b.Info()&types.IsInteger == 0 {
		return nil
	}
	iv := constant.ToInt(c.Value)
	r, ok2 := new(big.Int).SetString(iv.ExactString(), 10)
	if !ok2 {
		return nil
	}
	return r
}

func (fv *FV) intBinOp(st *State, op token.Token, x, y Val, xv, yv ssa.Value, t types.Type, at string) Val {
	b := t.Underlying().(*types.Basic)
	w, signed := intWidth(b)
	res := func(term string) Val { return Val{T: term, S: "Int", Typ: t} }
	wrap := func(term string) string {
		if w == 64 {
			fv.assumptions["machine arithmetic on 64-bit integers treated as mathematical (no wrap-around) in "+fv.fc.Key] = true
			return term
		}
		return wrapTo(term, w, signed)
	}
	switch op {
	case token.ADD:
		return res(wrap(fmt.Sprintf("(+ %s %s)", x.T, y.T)))
	case token.SUB:
		return res(wrap(fmt.Sprintf("(- %s %s)", x.T, y.T)))
	case token.MUL:
		return res(wrap(fmt.Sprintf("(* %s %s)", x.T, y.T)))
	case token.QUO:
		fv.safety(st, "div-by-zero", at, fmt.Sprintf("(not (= %s 0))", y.T))
		if !signed {
			return res(fmt.Sprintf("(div %s %s)", x.T, y.T))
		}
		return res(fmt.Sprintf("(tdiv %s %s)", x.T, y.T))
	case token.REM:
		fv.safety(st, "div-by-zero", at, fmt.Sprintf("(not (= %s 0))", y.T))
		if !signed {
			return res(fmt.Sprintf("(mod %s %s)", x.T, y.T))
		}
		return res(fmt.Sprintf("(tmod %s %s)", x.T, y.T))
	case token.SHL, token.SHR:
		k := constBig(yv)
		if k == nil {
			fn := "shl_u"
			if op == token.SHR {
				fn = "shr_u"
			}
			fv.assumptions["variable shift abstracted by an uninterpreted function in "+fv.fc.Key] = true
			return res(fmt.Sprintf("(%s %s %s)", fn, x.T, y.T))
		}
		n := int(k.Int64())
		if op == token.SHL {
			if n >= w {
				return res("0")
			}
			return res(wrapTo(fmt.Sprintf("(* %s %s)", x.T, pow2str(n)), w, signed))
		}
		if n >= w {
			if signed {
				return res(fmt.Sprintf("(ite (< %s 0) (- 1) 0)", x.T))
			}
			return res("0")
		}
		return res(fmt.Sprintf("(div %s %s)", x.T, pow2str(n)))
	case token.AND, token.OR, token.XOR, token.AND_NOT:
		c := constBig(yv)
		v := x
		if c == nil {
			c = constBig(xv)
			v = y
			if op == token.AND_NOT {
				c = nil
			}
		}
		if c == nil {
			fv.assumptions["bitwise operator on two variables abstracted by an uninterpreted function in "+fv.fc.Key] = true
			name := map[token.Token]string{token.AND: "bit_and", token.OR: "bit_or", token.XOR: "bit_xor", token.AND_NOT: "bit_andnot"}[op]
			return res(fmt.Sprintf("(%s %s %s)", name, x.T, y.T))
		}
		// two's complement view of the constant
		cm := new(big.Int).Mod(c, new(big.Int).Lsh(newBig(1), uint(w)))
		if op == token.AND_NOT {
			mask := new(big.Int).Sub(new(big.Int).Lsh(newBig(1), uint(w)), newBig(1))
			cm = new(big.Int).Xor(cm, mask)
			op = token.AND
		}
		u := fv.define(st, "u", "Int", toUns(v.T, w, signed))
		var parts []string
		blocks := bitBlocks(cm, w)
		switch op {
		case token.AND:
			for _, bl := range blocks {
				p := bitsOf(u, bl[0], bl[1])
				if bl[0] > 0 {
					p = fmt.Sprintf("(* %s %s)", p, pow2str(bl[0]))
				}
				parts = append(parts, p)
			}
			if len(parts) == 0 {
				return res("0")
			}
			sum := parts[0]
			if len(parts) > 1 {
				sum = "(+ " + strings.Join(parts, " ") + ")"
			}
			return res(fromUns(sum, w, signed))
		case token.OR:
			// u | c = u - (bits of u inside c) + c
			sub := []string{}
			for _, bl := range blocks {
				p := bitsOf(u, bl[0], bl[1])
				if bl[0] > 0 {
					p = fmt.Sprintf("(* %s %s)", p, pow2str(bl[0]))
				}
				sub = append(sub, p)
			}
			tm := u
			if len(sub) > 0 {
				tm = fmt.Sprintf("(+ (- %s %s) %s)", u, "(+ 0 "+strings.Join(sub, " ")+")", cm.String())
			}
			return res(fromUns(tm, w, signed))
		case token.XOR:
			// u ^ c = u - 2*(u&c) + c
			sub := []string{}
			for _, bl := range blocks {
				p := bitsOf(u, bl[0], bl[1])
				if bl[0] > 0 {
					p = fmt.Sprintf("(* %s %s)", p, pow2str(bl[0]))
				}
				sub = append(sub, p)
			}
			tm := u
			if len(sub) > 0 {
				tm = fmt.Sprintf("(+ (- %s (* 2 %s)) %s)", u, "(+ 0 "+strings.Join(sub, " ")+")", cm.String())
			}
			return res(fromUns(tm, w, signed))
		}
	}
	panic(unsupported("int binop " + op.String()))
}

func (fv *FV) bvBinOp(op token.Token, x, y Val, t types.Type) Val {
	b := t.Underlying().(*types.Basic)
	w, signed := intWidth(b)
	res := func(term string) Val { return Val{T: term, S: bvSort(w), Typ: t} }
	yT := y.T
	if op == token.SHL || op == token.SHR {
		// align shift count width
		var yw int
		fmt.Sscanf(y.S, "(_ BitVec %d)", &yw)
		if yw < w {
			yT = fmt.Sprintf("((_ zero_extend %d) %s)", w-yw, y.T)
		} else if yw > w {
			// saturate: if high bits set the shift is >= w anyway
			yT = fmt.Sprintf("(ite (bvuge %s (_ bv%d %d)) (_ bv%d %d) ((_ extract %d 0) %s))", y.T, w, yw, w, w, w-1, y.T)
		}
	}
	switch op {
	case token.ADD:
		return res(fmt.Sprintf("(bvadd %s %s)", x.T, y.T))
	case token.SUB:
		return res(fmt.Sprintf("(bvsub %s %s)", x.T, y.T))
	case token.MUL:
		return res(fmt.Sprintf("(bvmul %s %s)", x.T, y.T))
	case token.AND:
		return res(fmt.Sprintf("(bvand %s %s)", x.T, y.T))
	case token.OR:
		return res(fmt.Sprintf("(bvor %s %s)", x.T, y.T))
	case token.XOR:
		return res(fmt.Sprintf("(bvxor %s %s)", x.T, y.T))
	case token.AND_NOT:
		return res(fmt.Sprintf("(bvand %s (bvnot %s))", x.T, y.T))
	case token.SHL:
		return res(fmt.Sprintf("(bvshl %s %s)", x.T, yT))
	case token.SHR:
		if signed {
			return res(fmt.Sprintf("(bvashr %s %s)", x.T, yT))
		}
		return res(fmt.Sprintf("(bvlshr %s %s)", x.T, yT))
	case token.QUO:
		if signed {
			return res(fmt.Sprintf("(bvsdiv %s %s)", x.T, y.T))
		}
		return res(fmt.Sprintf("(bvudiv %s %s)", x.T, y.T))
	case token.REM:
		if signed {
			return res(fmt.Sprintf("(bvsrem %s %s)", x.T, y.T))
		}
		return res(fmt.Sprintf("(bvurem %s %s)", x.T, y.T))
	}
	panic(unsupported("bv binop " + op.String()))
}

func (fv *FV) cmpOp(op token.Token, x, y Val) string {
	t := x.Typ
	if t == nil {
		t = y.Typ
	}
	neg := func(s string) string { return "(not " + s + ")" }
	switch x.S {
	case "Int":
		m := map[token.Token]string{token.EQL: "=", token.LSS: "<", token.LEQ: "<=", token.GTR: ">", token.GEQ: ">="}
		if op == token.NEQ {
			return neg(fmt.Sprintf("(= %s %s)", x.T, y.T))
		}
		return fmt.Sprintf("(%s %s %s)", m[op], x.T, y.T)
	case "Bool", "Slice":
		if op == token.NEQ {
			return neg(fmt.Sprintf("(= %s %s)", x.T, y.T))
		}
		return fmt.Sprintf("(= %s %s)", x.T, y.T)
	case "Iface":
		// comparison with nil is by dynamic type; general equality structural
		if op == token.NEQ {
			return neg(fmt.Sprintf("(= %s %s)", x.T, y.T))
		}
		return fmt.Sprintf("(= %s %s)", x.T, y.T)
	case "Str":
		switch op {
		case token.EQL:
			return fmt.Sprintf("(= %s %s)", x.T, y.T)
		case token.NEQ:
			return neg(fmt.Sprintf("(= %s %s)", x.T, y.T))
		case token.LSS:
			return fmt.Sprintf("(str_lt %s %s)", x.T, y.T)
		case token.GTR:
			return fmt.Sprintf("(str_lt %s %s)", y.T, x.T)
		case token.LEQ:
			return neg(fmt.Sprintf("(str_lt %s %s)", y.T, x.T))
		case token.GEQ:
			return neg(fmt.Sprintf("(str_lt %s %s)", x.T, y.T))
		}
	}
	if strings.HasPrefix(x.S, "(_ FloatingPoint") {
		m := map[token.Token]string{token.EQL: "fp.eq", token.LSS: "fp.lt", token.LEQ: "fp.leq", token.GTR: "fp.gt", token.GEQ: "fp.geq"}
		if op == token.NEQ {
			return neg(fmt.Sprintf("(fp.eq %s %s)", x.T, y.T))
		}
		return fmt.Sprintf("(%s %s %s)", m[op], x.T, y.T)
	}
	if strings.HasPrefix(x.S, "(_ BitVec") {
		_, signed := intWidth(t.Underlying().(*types.Basic))
		var o string
		switch op {
		case token.EQL:
			return fmt.Sprintf("(= %s %s)", x.T, y.T)
		case token.NEQ:
			return neg(fmt.Sprintf("(= %s %s)", x.T, y.T))
		case token.LSS:
			o = "bvult"
			if signed {
				o = "bvslt"
			}
		case token.LEQ:
			o = "bvule"
			if signed {
				o = "bvsle"
			}
		case token.GTR:
			o = "bvugt"
			if signed {
				o = "bvsgt"
			}
		case token.GEQ:
			o = "bvuge"
			if signed {
				o = "bvsge"
			}
		}
		return fmt.Sprintf("(%s %s %s)", o, x.T, y.T)
	}
	if op == token.EQL {
		return fmt.Sprintf("(= %s %s)", x.T, y.T)
	}
	if op == token.NEQ {
		return neg(fmt.Sprintf("(= %s %s)", x.T, y.T))
	}
	panic(unsupported("comparison on sort " + x.S))
}

func isCmp(op token.Token) bool {
	switch op {
	case token.EQL, token.NEQ, token.LSS, token.LEQ, token.GTR, token.GEQ:
		return true
	}
	return false
}

func (fv *FV) binOp(st *State, in *ssa.BinOp) Val {
	x := fv.valOf(st, in.X)
	y := fv.valOf(st, in.Y)
	x = fv.asTerm(st, x)
	y = fv.asTerm(st, y)
	if isCmp(in.Op) {
		return Val{T: fv.cmpOp(in.Op, x, y), S: "Bool", Typ: in.Type()}
	}
	t := in.Type()
	switch b := t.Underlying().(type) {
	case *types.Basic:
		switch {
		case b.Info()&types.IsInteger != 0:
			if fv.bv {
				return fv.bvBinOp(in.Op, x, y, t)
			}
			return fv.intBinOp(st, in.Op, x, y, in.X, in.Y, t, in.Name())
		case b.Info()&types.IsBoolean != 0:
			switch in.Op {
			case token.AND, token.LAND:
				return Val{T: fmt.Sprintf("(and %s %s)", x.T, y.T), S: "Bool", Typ: t}
			case token.OR, token.LOR:
				return Val{T: fmt.Sprintf("(or %s %s)", x.T, y.T), S: "Bool", Typ: t}
			}
		case b.Info()&types.IsString != 0:
			if in.Op == token.ADD {
				return Val{T: fmt.Sprintf("(str_cat %s %s)", x.T, y.T), S: "Str", Typ: t}
			}
		case b.Info()&types.IsFloat != 0:
			m := map[token.Token]string{token.ADD: "fp.add RNE", token.SUB: "fp.sub RNE", token.MUL: "fp.mul RNE", token.QUO: "fp.div RNE"}
			if o, ok := m[in.Op]; ok {
				return Val{T: fmt.Sprintf("(%s %s %s)", o, x.T, y.T), S: x.S, Typ: t}
			}
		}
	}
	panic(unsupported("binop " + in.Op.String() + " on " + t.String()))
}

// asTerm turns a meta-level location into an SMT pointer term by boxing
// (copy-in); see DESIGN "boxing". The copy-out is registered by the caller
// when needed.
func (fv *FV) asTerm(st *State, v Val) Val {
	if v.Loc == nil {
		return v
	}
	return fv.box(st, v)
}

type boxed struct {
	loc  *Loc
	ref  string
	sort string
	val  string // boxed value at copy-in
}

func (fv *FV) box(st *State, v Val) Val {
	l := v.Loc
	if len(l.path) == 0 {
		return Val{T: l.ref, S: "Int", Typ: v.Typ}
	}
	sort := fv.locSort(l)
	cur := fv.load(st, l)
	r := fv.fresh("box", "Int")
	st.assume(fmt.Sprintf("(> %s %s)", r, st.alloc))
	st.alloc = r
	fv.setHeap(st, sort, fmt.Sprintf("(store %s %s %s)", fv.heap(st, sort), r, cur))
	fv.eng.noteBox(fv.fc.Key)
	bx := Val{T: r, S: "Int", Typ: v.Typ}
	st.fr.boxes = append(st.fr.boxes, boxed{l, r, sort, fv.define(st, "boxv", sort, cur)})
	return bx
}

// unboxAll copies boxed cells back to their origin (copy-out) after a call.
func (fv *FV) unboxAll(st *State, from int) {
	bs := st.fr.boxes
	for i := len(bs) - 1; i >= from; i-- {
		b := bs[i]
		now := fmt.Sprintf("(select %s %s)", fv.heap(st, b.sort), b.ref)
		fv.storeUnless(st, b.loc, now, fmt.Sprintf("(= %s %s)", now, b.val))
	}
	st.fr.boxes = bs[:from]
}

// trackedTypes: the tracked types present in this universe, name -> dynamic type id.
func (fv *FV) trackedTypes() map[string]int {
	if fv.tracked != nil {
		return fv.tracked
	}
	fv.tracked = map[string]int{}
	for _, n := range fv.u.db.Tracked {
		if t := fv.tryParseTypeName("*" + n); t != nil {
			fv.tracked[n] = fv.u.typeID(t)
		}
	}
	return fv.tracked
}

// trackedName: the tracked-type name of t ("" when t is not tracked).
func (fv *FV) trackedName(t types.Type) string {
	if t == nil || len(fv.trackedTypes()) == 0 {
		return ""
	}
	id := fv.u.typeID(types.NewPointer(t))
	for n, i := range fv.tracked {
		if i == id {
			return n
		}
	}
	return ""
}

// newRef allocates the next object reference; typ is the allocated type when known.
func (fv *FV) newRef(st *State, prefix string, typ ...types.Type) string {
	r := fv.fresh(prefix, "Int")
	st.assume(fmt.Sprintf("(= %s (+ %s 1))", r, st.alloc))
	st.alloc = r
	if tr := fv.trackedTypes(); len(tr) > 0 {
		tn := ""
		if len(typ) == 1 {
			tn = fv.trackedName(typ[0])
		}
		if tn != "" {
			st.assume(fmt.Sprintf("(= (rtype %s) %d)", r, tr[tn]))
			if !fv.fc.Allocates[tn] {
				fv.nTouch++
				fv.addObl(st, "frame", fmt.Sprintf("allocates:%s#%d@%s", tn, fv.nTouch, st.fr.fn.Name()), "false", "allocates an object of tracked type "+tn+" without declaring it", nil)
			}
		} else {
			for _, id := range sortedIDs(tr) {
				st.assume(fmt.Sprintf("(not (= (rtype %s) %d))", r, id))
			}
		}
	}
	if _, ok := fv.u.db.GGlobal["relArr"]; ok {
		// a freshly allocated array has not been handed to the pool
		if g, ok := fv.lookupId("relArr", &Env{fv: fv, vars: map[string]Val{}, st: st}); ok {
			st.assume(fmt.Sprintf("(not (select %s %s))", g.T, r))
		}
	}
	return r
}

// readOnlyFreeVar: the closure only loads through its first free variable.
func readOnlyFreeVar(fn *ssa.Function) bool {
	if len(fn.FreeVars) == 0 {
		return false
	}
	refs := fn.FreeVars[0].Referrers()
	if refs == nil {
		return false
	}
	for _, r := range *refs {
		if u, ok := r.(*ssa.UnOp); ok && u.Op == token.MUL {
			continue
		}
		if _, ok := r.(*ssa.DebugRef); ok {
			continue
		}
		return false
	}
	return true
}

// capturedCell: binding b of a closure over fn is a cell holding an Int-sorted
// value that is written once (before the closure is made) and only read by
// the closure. Returns the cell's current content.
func (fv *FV) capturedCell(st *State, b ssa.Value, fn *ssa.Function) (string, bool) {
	al, ok := b.(*ssa.Alloc)
	if !ok || !readOnlyFreeVar(fn) {
		return "", false
	}
	et := al.Type().Underlying().(*types.Pointer).Elem()
	if fv.u.sortOf(et, fv.bv) != "Int" {
		return "", false
	}
	stores := 0
	for _, r := range *al.Referrers() {
		switch x := r.(type) {
		case *ssa.Store:
			if x.Addr != al {
				return "", false
			}
			stores++
		case *ssa.MakeClosure, *ssa.DebugRef:
		default:
			return "", false
		}
	}
	if stores != 1 {
		return "", false
	}
	v := fv.valOf(st, al)
	return fmt.Sprintf("(select %s %s)", fv.heap(st, "Int"), fv.asTerm(st, v).T), true
}

func sortedIDs(m map[string]int) []int {
	var out []int
	for _, v := range m {
		out = append(out, v)
	}
	sort.Ints(out)
	return out
}

func (fv *FV) convert(st *State, in *ssa.Convert) Val {
	x := fv.asTerm(st, fv.valOf(st, in.X))
	from := in.X.Type().Underlying()
	to := in.Type().Underlying()
	tsort := fv.u.sortOf(in.Type(), fv.bv)
	fb, fok := from.(*types.Basic)
	tb, tok := to.(*types.Basic)
	if fok && tok {
		switch {
		case fb.Info()&types.IsInteger != 0 && tb.Info()&types.IsInteger != 0:
			fw, fs := intWidth(fb)
			tw, ts := intWidth(tb)
			if fv.bv {
				switch {
				case tw == fw:
					return Val{T: x.T, S: tsort, Typ: in.Type()}
				case tw < fw:
					return Val{T: fmt.Sprintf("((_ extract %d 0) %s)", tw-1, x.T), S: tsort, Typ: in.Type()}
				default:
					ext := "zero_extend"
					if fs {
						ext = "sign_extend"
					}
					return Val{T: fmt.Sprintf("((_ %s %d) %s)", ext, tw-fw, x.T), S: tsort, Typ: in.Type()}
				}
			}
			// int mode: identity if the source range fits
			fits := (fs == ts && fw <= tw) || (!fs && ts && fw < tw)
			if fits {
				return Val{T: x.T, S: "Int", Typ: in.Type()}
			}
			return Val{T: wrapTo(x.T, tw, ts), S: "Int", Typ: in.Type()}
		case fb.Info()&types.IsInteger != 0 && tb.Info()&types.IsFloat != 0:
			if c := constBig(in.X); c != nil {
				f, _ := new(big.Float).SetInt(c).Float64()
				if tb.Kind() == types.Float32 {
					return Val{T: fmt.Sprintf("((_ to_fp 8 24) #x%08x)", math.Float32bits(float32(f))), S: tsort, Typ: in.Type()}
				}
				return Val{T: fmt.Sprintf("((_ to_fp 11 53) #x%016x)", math.Float64bits(f)), S: tsort, Typ: in.Type()}
			}
			fv.assumptions["int to float conversion abstracted in "+fv.fc.Key] = true
			return Val{T: fv.fresh("i2f", tsort), S: tsort, Typ: in.Type()}
		case fb.Info()&types.IsFloat != 0 && tb.Info()&types.IsFloat != 0:
			if x.S == tsort {
				return Val{T: x.T, S: tsort, Typ: in.Type()}
			}
			if tb.Kind() == types.Float32 {
				return Val{T: fmt.Sprintf("((_ to_fp 8 24) RNE %s)", x.T), S: tsort, Typ: in.Type()}
			}
			return Val{T: fmt.Sprintf("((_ to_fp 11 53) RNE %s)", x.T), S: tsort, Typ: in.Type()}
		case fb.Info()&types.IsString != 0 && tb.Info()&types.IsString != 0:
			return Val{T: x.T, S: "Str", Typ: in.Type()}
		}
	}
	// string <-> []byte
	if fok && fb.Info()&types.IsString != 0 {
		if _, ok := to.(*types.Slice); ok {
			r := fv.newRef(st, "s2b")
			esort := "(Array Int " + fv.u.sortOf(types.Typ[types.Uint8], fv.bv) + ")"
			if !fv.bv {
				fv.setHeap(st, esort, fmt.Sprintf("(store %s %s (str_bytes %s))", fv.heap(st, esort), r, x.T))
			} else {
				fv.havocHeap(st, esort)
			}
			return Val{T: fmt.Sprintf("(mk-slice %s 0 (str_len %s) (str_len %s))", r, x.T, x.T), S: "Slice", Typ: in.Type()}
		}
	}
	if tok && tb.Info()&types.IsString != 0 {
		if _, ok := from.(*types.Slice); ok {
			esort := "(Array Int Int)"
			s := fv.fresh("b2s", "Str")
			st.assume(fmt.Sprintf("(= %s (str_of (select %s (sref %s)) (soff %s) (slen %s)))", s, fv.heap(st, esort), x.T, x.T, x.T))
			st.assume(fmt.Sprintf("(= (str_len %s) (slen %s))", s, x.T))
			return Val{T: s, S: "Str", Typ: in.Type()}
		}
	}
	panic(unsupported(fmt.Sprintf("convert %s -> %s", from, to)))
}

func (fv *FV) sliceWF(st *State, t string) {
	st.assume(fmt.Sprintf("(and (<= 0 (soff %s)) (<= 0 (slen %s)) (<= (slen %s) (scap %s)) (<= 0 (sref %s)) (<= (sref %s) %s) (=> (= (sref %s) 0) (= (scap %s) 0)) (<= (scap %s) 9223372036854775807))", t, t, t, t, t, t, st.alloc, t, t, t))
}

// assumeWF adds the well-formedness facts for a value just loaded from
// memory or received from outside.
func (fv *FV) assumeWF(st *State, v Val) {
	if v.Typ == nil || v.Loc != nil {
		return
	}
	switch v.S {
	case "Slice":
		fv.sliceWF(st, v.T)
	case "Int":
		switch v.Typ.Underlying().(type) {
		case *types.Pointer, *types.Map:
			st.assume(fmt.Sprintf("(and (<= 0 %s) (<= %s %s))", v.T, v.T, st.alloc))
			if pt, ok := v.Typ.Underlying().(*types.Pointer); ok {
				if tn := fv.trackedName(pt.Elem()); tn != "" {
					st.assume(fmt.Sprintf("(or (= %s 0) (= (rtype %s) %d))", v.T, v.T, fv.tracked[tn]))
				}
			}
		case *types.Basic:
			st.assume(fv.rangeFact(v.T, v.Typ))
		}
	case "Iface":
		st.assume(fmt.Sprintf("(and (<= 0 (ityp %s)) (<= 0 (ival %s)) (<= (ival %s) %s) (=> (= (ityp %s) 0) (= (ival %s) 0)))", v.T, v.T, v.T, st.alloc, v.T, v.T))
		// an interface declared in the library can only hold the library's implementors
		if n, ok := v.Typ.(*types.Named); ok && n.Obj().Pkg() != nil && fv.eng.scopePkgs[n.Obj().Pkg().Path()] {
			if it, ok := n.Underlying().(*types.Interface); ok {
				alts := []string{fmt.Sprintf("(= (ityp %s) 0)", v.T)}
				for _, c := range fv.eng.implementors(it) {
					// an interface of a generated package is only implemented inside that package
					if cn := namedOf(c); cn != nil && cn.Obj().Pkg() != nil && fv.eng.normPkgPath(n.Obj().Pkg().Path()) == "GEN" && cn.Obj().Pkg() != n.Obj().Pkg() {
						continue
					}
					alts = append(alts, fmt.Sprintf("(= (ityp %s) %d)", v.T, fv.u.typeID(c)))
				}
				if len(alts) > 1 {
					st.assume("(or " + strings.Join(alts, " ") + ")")
				}
			}
		}
	}
}

func (fv *FV) bind(st *State, in ssa.Value, v Val) {
	if v.Loc == nil && v.Tuple == nil && v.T != "" {
		v.T = fv.define(st, st.fr.fn.Name()+"_"+in.Name(), v.S, v.T)
	}
	st.fr.vals[in] = v
}

// execInstr executes one non-terminator instruction. It returns false if the
// path ended (e.g. call continuation took over).
func (fv *FV) execInstr(st *State, in ssa.Instruction, rest func(*State)) bool {
	switch x := in.(type) {
	case *ssa.DebugRef:
		if os.Getenv("GOVC_DEBUG_ID") == "*" {
			fmt.Fprintf(os.Stderr, "debugref in %s block %d: expr %T X=%s isaddr=%v\n", st.fr.fn.Name(), x.Block().Index, x.Expr, x.X.Name(), x.IsAddr)
		}
		if _, isLit := x.Expr.(*ast.CompositeLit); isLit && st.fr.pendingName != "" {
			// x/tools v0.29 records `v := T{...}` as "v is <zero>" followed by "T{...} is tN"
			if vv, ok := st.fr.vals[x.X]; ok {
				st.fr.names[st.fr.pendingName] = vv
			}
			st.fr.pendingName = ""
		}
		if id, ok := x.Expr.(*ast.Ident); ok && id.Name != "_" {
			var v Val
			st.fr.pendingName = ""
			if _, isC := x.X.(*ssa.Const); isC {
				v = fv.valOf(st, x.X)
				st.fr.pendingName = id.Name
			} else if vv, ok := st.fr.vals[x.X]; ok {
				v = vv
			} else {
				break
			}
			if os.Getenv("GOVC_DEBUG_ID") == id.Name {
				fmt.Fprintf(os.Stderr, "debugref %s in %s block %d: X=%s (%T) -> %q\n", id.Name, st.fr.fn.Name(), x.Block().Index, x.X.Name(), x.X, v.T)
			}
			if x.IsAddr {
				st.fr.names[id.Name] = Val{Loc: fv.ptrLoc(v), Typ: v.Typ}
			} else {
				st.fr.names[id.Name] = v
			}
		}
	case *ssa.Alloc:
		et := x.Type().Underlying().(*types.Pointer).Elem()
		sort := fv.u.sortOf(et, fv.bv)
		r := fv.newRef(st, "new", et)
		fv.setHeap(st, sort, fmt.Sprintf("(store %s %s %s)", fv.heap(st, sort), r, fv.u.zero(sort)))
		fv.zeroGhostFields(st, et, r)
		fv.bind(st, x, Val{T: r, S: "Int", Typ: x.Type()})
		st.fr.allocs = append(st.fr.allocs, localAlloc{x, r, sort})
	case *ssa.BinOp:
		fv.bind(st, x, fv.binOp(st, x))
	case *ssa.UnOp:
		v := fv.valOf(st, x.X)
		switch x.Op {
		case token.MUL:
			l := fv.ptrLoc(v)
			if len(l.path) == 0 {
				fv.safety(st, "nil-deref", x.Name(), fmt.Sprintf("(not (= %s 0))", l.ref))
			}
			sort := fv.locSort(l)
			r := Val{T: fv.load(st, l), S: sort, Typ: x.Type()}
			r.T = fv.define(st, st.fr.fn.Name()+"_"+x.Name(), r.S, r.T)
			fv.assumeWF(st, r)
			st.fr.vals[x] = r
		case token.NOT:
			fv.bind(st, x, Val{T: "(not " + v.T + ")", S: "Bool", Typ: x.Type()})
		case token.SUB:
			if strings.HasPrefix(v.S, "(_ FloatingPoint") {
				fv.bind(st, x, Val{T: "(fp.neg " + v.T + ")", S: v.S, Typ: x.Type()})
			} else if fv.bv {
				fv.bind(st, x, Val{T: "(bvneg " + v.T + ")", S: v.S, Typ: x.Type()})
			} else {
				w, signed := intWidth(x.Type().Underlying().(*types.Basic))
				t := "(- " + v.T + ")"
				if w < 64 || !signed {
					t = wrapTo(t, w, signed)
				}
				fv.bind(st, x, Val{T: t, S: "Int", Typ: x.Type()})
			}
		case token.XOR:
			if fv.bv {
				fv.bind(st, x, Val{T: "(bvnot " + v.T + ")", S: v.S, Typ: x.Type()})
			} else {
				w, signed := intWidth(x.Type().Underlying().(*types.Basic))
				if signed {
					fv.bind(st, x, Val{T: fmt.Sprintf("(- (- %s) 1)", v.T), S: "Int", Typ: x.Type()})
				} else {
					fv.bind(st, x, Val{T: fmt.Sprintf("(- %s %s)", new(big.Int).Sub(new(big.Int).Lsh(newBig(1), uint(w)), newBig(1)).String(), v.T), S: "Int", Typ: x.Type()})
				}
			}
		default:
			fv.unsupportedf("unop %s", x.Op)
		}
	case *ssa.Store:
		if g := rootGlobal(x.Addr); g != nil {
			fv.addObl(st, "ensures", fmt.Sprintf("noglobal:store:%s@%s", g.Name(), st.fr.fn.Name()), "false", "store to package-level variable "+g.String(), []string{"C13"})
		}
		p := fv.valOf(st, x.Addr)
		v := fv.asTerm(st, fv.valOf(st, x.Val))
		l := fv.ptrLoc(p)
		if len(l.path) == 0 {
			fv.safety(st, "nil-deref", fmt.Sprintf("store@b%d", x.Block().Index), fmt.Sprintf("(not (= %s 0))", l.ref))
		}
		fv.store(st, l, v.T)
	case *ssa.FieldAddr:
		p := fv.valOf(st, x.X)
		l := fv.ptrLoc(p)
		if len(l.path) == 0 {
			fv.safety(st, "nil-deref", x.Name(), fmt.Sprintf("(not (= %s 0))", l.ref))
		}
		stt := l.typ.Underlying().(*types.Struct)
		si := fv.u.structInfo(l.typ, fv.bv)
		nl := &Loc{heap: l.heap, ref: l.ref, path: append(append([]step(nil), l.path...), step{field: x.Field, sort: si.FSorts[x.Field], ssort: si.Sort}), typ: stt.Field(x.Field).Type()}
		st.fr.vals[x] = Val{Loc: nl, Typ: x.Type()}
	case *ssa.Field:
		v := fv.valOf(st, x.X)
		si := fv.u.structInfo(x.X.Type(), fv.bv)
		r := Val{T: fmt.Sprintf("(%s %s)", si.Fields[x.Field], v.T), S: si.FSorts[x.Field], Typ: x.Type()}
		fv.bind(st, x, r)
		fv.assumeWF(st, st.fr.vals[x])
	case *ssa.IndexAddr:
		base := fv.valOf(st, x.X)
		idx := fv.indexTerm(st, x.Index)
		st.addIdx(idx)
		switch bt := x.X.Type().Underlying().(type) {
		case *types.Slice:
			es := fv.u.sortOf(bt.Elem(), fv.bv)
			fv.safety(st, "index", x.Name(), fmt.Sprintf("(and (<= 0 %s) (< %s (slen %s)))", idx, idx, base.T))
			nl := &Loc{heap: "(Array Int " + es + ")", ref: fmt.Sprintf("(sref %s)", base.T),
				path: []step{{field: -1, idx: fv.define(st, "ix", "Int", fmt.Sprintf("(+ (soff %s) %s)", base.T, idx)), sort: es, ssort: "(Array Int " + es + ")"}}, typ: bt.Elem()}
			st.fr.vals[x] = Val{Loc: nl, Typ: x.Type()}
		case *types.Pointer:
			at := bt.Elem().Underlying().(*types.Array)
			es := fv.u.sortOf(at.Elem(), fv.bv)
			fv.safety(st, "index", x.Name(), fmt.Sprintf("(and (<= 0 %s) (< %s %d))", idx, idx, at.Len()))
			l := fv.ptrLoc(base)
			if len(l.path) == 0 {
				fv.safety(st, "nil-deref", x.Name(), fmt.Sprintf("(not (= %s 0))", l.ref))
			}
			nl := &Loc{heap: l.heap, ref: l.ref, path: append(append([]step(nil), l.path...), step{field: -1, idx: idx, sort: es, ssort: "(Array Int " + es + ")"}), typ: at.Elem()}
			st.fr.vals[x] = Val{Loc: nl, Typ: x.Type()}
		default:
			fv.unsupportedf("IndexAddr on %s", x.X.Type())
		}
	case *ssa.Index:
		base := fv.valOf(st, x.X)
		idx := fv.indexTerm(st, x.Index)
		switch bt := x.X.Type().Underlying().(type) {
		case *types.Array:
			fv.safety(st, "index", x.Name(), fmt.Sprintf("(and (<= 0 %s) (< %s %d))", idx, idx, bt.Len()))
			fv.bind(st, x, Val{T: fmt.Sprintf("(select %s %s)", base.T, idx), S: fv.u.sortOf(bt.Elem(), fv.bv), Typ: x.Type()})
		default:
			fv.unsupportedf("Index on %s", x.X.Type())
		}
	case *ssa.Slice:
		fv.sliceInstr(st, x)
	case *ssa.MakeSlice:
		et := x.Type().Underlying().(*types.Slice).Elem()
		es := "(Array Int " + fv.u.sortOf(et, fv.bv) + ")"
		ln := fv.indexTerm(st, x.Len)
		cp := fv.indexTerm(st, x.Cap)
		fv.safety(st, "makeslice-len", x.Name(), fmt.Sprintf("(and (<= 0 %s) (<= %s %s))", ln, ln, cp))
		r := fv.newRef(st, "mk")
		fv.setHeap(st, es, fmt.Sprintf("(store %s %s %s)", fv.heap(st, es), r, fv.u.zero(es)))
		fv.bind(st, x, Val{T: fmt.Sprintf("(mk-slice %s 0 %s %s)", r, ln, cp), S: "Slice", Typ: x.Type()})
	case *ssa.MakeInterface:
		v := fv.asTerm(st, fv.valOf(st, x.X))
		id := fv.u.typeID(x.X.Type())
		var payload string
		if v.S == "Int" {
			if _, isPtr := x.X.Type().Underlying().(*types.Pointer); isPtr {
				payload = v.T
			} else {
				payload = fmt.Sprintf("(box_any %d %s)", id, v.T)
			}
		} else {
			payload = fv.fresh("ifv", "Int")
			st.assume(fmt.Sprintf("(<= %s %s)", payload, st.alloc))
		}
		fv.bind(st, x, Val{T: fmt.Sprintf("(mk-iface %d %s)", id, payload), S: "Iface", Typ: x.Type()})
	case *ssa.ChangeInterface:
		v := fv.valOf(st, x.X)
		v.Typ = x.Type()
		st.fr.vals[x] = v
	case *ssa.ChangeType:
		v := fv.valOf(st, x.X)
		v.Typ = x.Type()
		st.fr.vals[x] = v
	case *ssa.Convert:
		fv.bind(st, x, fv.convert(st, x))
	case *ssa.Extract:
		t := fv.valOf(st, x.Tuple)
		st.fr.vals[x] = t.Tuple[x.Index]
	case *ssa.TypeAssert:
		v := fv.valOf(st, x.X)
		if _, isIface := x.AssertedType.Underlying().(*types.Interface); isIface {
			fv.unsupportedf("type assert to interface")
		}
		id := fv.u.typeID(x.AssertedType)
		ok := fmt.Sprintf("(= (ityp %s) %d)", v.T, id)
		sort := fv.u.sortOf(x.AssertedType, fv.bv)
		var pv Val
		if sort == "Int" {
			pv = Val{T: fmt.Sprintf("(ival %s)", v.T), S: "Int", Typ: x.AssertedType}
		} else {
			pv = Val{T: fv.fresh("ta", sort), S: sort, Typ: x.AssertedType}
		}
		if x.CommaOk {
			st.fr.vals[x] = Val{Tuple: []Val{pv, {T: ok, S: "Bool", Typ: types.Typ[types.Bool]}}}
		} else {
			fv.safety(st, "type-assert", x.Name(), ok)
			st.fr.vals[x] = pv
		}
	case *ssa.MakeMap:
		r := fv.newRef(st, "map")
		mt := x.Type().Underlying().(*types.Map)
		ks, vs := fv.u.sortOf(mt.Key(), fv.bv), fv.u.sortOf(mt.Elem(), fv.bv)
		dsort := "(Array " + ks + " Bool)"
		vsort := "(Array " + ks + " " + vs + ")"
		fv.setHeap(st, dsort, fmt.Sprintf("(store %s %s ((as const %s) false))", fv.heap(st, dsort), r, dsort))
		fv.setHeap(st, vsort, fmt.Sprintf("(store %s %s ((as const %s) %s))", fv.heap(st, vsort), r, vsort, fv.u.zero(vs)))
		fv.bind(st, x, Val{T: r, S: "Int", Typ: x.Type()})
	case *ssa.Lookup:
		if mt, ok := x.X.Type().Underlying().(*types.Map); ok {
			m := fv.valOf(st, x.X)
			k := fv.asTerm(st, fv.valOf(st, x.Index))
			ks, vs := fv.u.sortOf(mt.Key(), fv.bv), fv.u.sortOf(mt.Elem(), fv.bv)
			dsort := "(Array " + ks + " Bool)"
			vsort := "(Array " + ks + " " + vs + ")"
			present := fmt.Sprintf("(select (select %s %s) %s)", fv.heap(st, dsort), m.T, k.T)
			val := fmt.Sprintf("(ite %s (select (select %s %s) %s) %s)", present, fv.heap(st, vsort), m.T, k.T, fv.u.zero(vs))
			pv := Val{T: fv.define(st, "mv", vs, val), S: vs, Typ: mt.Elem()}
			fv.assumeWF(st, pv)
			if x.CommaOk {
				st.fr.vals[x] = Val{Tuple: []Val{pv, {T: fv.define(st, "mok", "Bool", present), S: "Bool", Typ: types.Typ[types.Bool]}}}
			} else {
				st.fr.vals[x] = pv
			}
		} else {
			// string index
			fv.unsupportedf("string index")
		}
	case *ssa.MapUpdate:
		mt := x.Map.Type().Underlying().(*types.Map)
		m := fv.valOf(st, x.Map)
		k := fv.asTerm(st, fv.valOf(st, x.Key))
		v := fv.asTerm(st, fv.valOf(st, x.Value))
		ks, vs := fv.u.sortOf(mt.Key(), fv.bv), fv.u.sortOf(mt.Elem(), fv.bv)
		dsort := "(Array " + ks + " Bool)"
		vsort := "(Array " + ks + " " + vs + ")"
		fv.safety(st, "nil-map-write", fmt.Sprintf("mapupdate@b%d", x.Block().Index), fmt.Sprintf("(not (= %s 0))", m.T))
		hd, hv := fv.heap(st, dsort), fv.heap(st, vsort)
		fv.touch(st, vsort, m.T, "mapupdate")
		fv.setHeap(st, dsort, fmt.Sprintf("(store %s %s (store (select %s %s) %s true))", hd, m.T, hd, m.T, k.T))
		fv.setHeap(st, vsort, fmt.Sprintf("(store %s %s (store (select %s %s) %s %s))", hv, m.T, hv, m.T, k.T, v.T))
	case *ssa.MakeClosure:
		fn := x.Fn.(*ssa.Function)
		fvv := fv.funcVal(fn)
		// closure identity: fresh value tagged with the function and bindings
		c := fv.fresh("clo", "Int")
		var binds []Val
		for _, b := range x.Bindings {
			binds = append(binds, fv.asTerm(st, fv.valOf(st, b)))
		}
		fv.eng.closures[c] = &closureInfo{fn: fn, binds: binds}
		st.assume(fmt.Sprintf("(= (fn_of %s) %s)", c, fvv.T))
		if len(binds) > 0 && binds[0].S == "Int" {
			if cv, ok := fv.capturedCell(st, x.Bindings[0], fn); ok {
				// the variable is captured by reference but never assigned again: its value
				st.assume(fmt.Sprintf("(= (clo_arg0 %s) %s)", c, cv))
				fv.assumptions["a variable captured by a closure, written once before the closure is made and only read inside it, keeps its value (the cell is not reachable from anywhere else) in "+fv.fc.Key] = true
			} else {
				st.assume(fmt.Sprintf("(= (clo_arg0 %s) %s)", c, binds[0].T))
			}
		}
		st.fr.vals[x] = Val{T: c, S: "Int", Typ: x.Type()}
	case *ssa.Defer:
		st.fr.defers = append(st.fr.defers, x)
	case *ssa.RunDefers:
		// executed via continuation chain
		ds := st.fr.defers
		st.fr.defers = nil
		var run func(st *State, i int)
		run = func(st *State, i int) {
			if i < 0 {
				rest(st)
				return
			}
			fv.call(st, ds[i], &ds[i].Call, nil, func(st *State) { run(st, i-1) })
		}
		run(st, len(ds)-1)
		return false
	case *ssa.Call:
		fv.call(st, x, &x.Call, x, rest)
		return false
	case *ssa.Phi:
		// handled at block entry
	case *ssa.Range, *ssa.Next, *ssa.Select, *ssa.Send, *ssa.Go, *ssa.MakeChan:
		fv.unsupportedf("instruction %T", in)
	default:
		fv.unsupportedf("instruction %T", in)
	}
	return true
}

// indexTerm returns an Int term for an index/len operand in either mode.
func (fv *FV) indexTerm(st *State, v ssa.Value) string {
	if v == nil {
		return ""
	}
	if c := constBig(v); c != nil {
		return intLit(c)
	}
	x := fv.asTerm(st, fv.valOf(st, v))
	if strings.HasPrefix(x.S, "(_ BitVec") {
		_, signed := intWidth(v.Type().Underlying().(*types.Basic))
		if signed {
			var w int
			fmt.Sscanf(x.S, "(_ BitVec %d)", &w)
			return fmt.Sprintf("(ite (bvslt %s (_ bv0 %d)) (- (bv2nat %s) %s) (bv2nat %s))", x.T, w, x.T, pow2str(w), x.T)
		}
		return fmt.Sprintf("(bv2nat %s)", x.T)
	}
	return x.T
}

// intResult converts an Int term to the representation of integer type t in the current mode.
func (fv *FV) intResult(term string, t types.Type) Val {
	if fv.bv {
		w, _ := intWidth(t.Underlying().(*types.Basic))
		return Val{T: fmt.Sprintf("((_ int2bv %d) %s)", w, term), S: bvSort(w), Typ: t}
	}
	return Val{T: term, S: "Int", Typ: t}
}

func (fv *FV) sliceInstr(st *State, x *ssa.Slice) {
	base := fv.valOf(st, x.X)
	lo := "0"
	if x.Low != nil {
		lo = fv.indexTerm(st, x.Low)
	}
	switch bt := x.X.Type().Underlying().(type) {
	case *types.Slice:
		hi := fmt.Sprintf("(slen %s)", base.T)
		if x.High != nil {
			hi = fv.indexTerm(st, x.High)
		}
		mx := fmt.Sprintf("(scap %s)", base.T)
		if x.Max != nil {
			mx = fv.indexTerm(st, x.Max)
		}
		fv.safety(st, "slice-bounds", x.Name(), fmt.Sprintf("(and (<= 0 %s) (<= %s %s) (<= %s %s) (<= %s (scap %s)))", lo, lo, hi, hi, mx, mx, base.T))
		r := fmt.Sprintf("(mk-slice (sref %s) (+ (soff %s) %s) (- %s %s) (- %s %s))", base.T, base.T, lo, hi, lo, mx, lo)
		fv.bind(st, x, Val{T: r, S: "Slice", Typ: x.Type()})
	case *types.Pointer:
		at := bt.Elem().Underlying().(*types.Array)
		l := fv.ptrLoc(base)
		if len(l.path) != 0 {
			fv.unsupportedf("slice of interior array")
		}
		n := fmt.Sprint(at.Len())
		hi := n
		if x.High != nil {
			hi = fv.indexTerm(st, x.High)
		}
		mx := n
		if x.Max != nil {
			mx = fv.indexTerm(st, x.Max)
		}
		fv.safety(st, "slice-bounds", x.Name(), fmt.Sprintf("(and (<= 0 %s) (<= %s %s) (<= %s %s) (<= %s %s))", lo, lo, hi, hi, mx, mx, n))
		r := fmt.Sprintf("(mk-slice %s %s (- %s %s) (- %s %s))", l.ref, lo, hi, lo, mx, lo)
		fv.bind(st, x, Val{T: r, S: "Slice", Typ: x.Type()})
	case *types.Basic: // string
		fv.unsupportedf("string slicing")
	default:
		fv.unsupportedf("slice of %s", x.X.Type())
	}
}

func namedOf(t types.Type) *types.Named {
	if p, ok := t.(*types.Pointer); ok {
		t = p.Elem()
	}
	n, _ := t.(*types.Named)
	return n
}

// zeroGhostFields: ghost fields of a freshly allocated object start at their zero value.
func (fv *FV) zeroGhostFields(st *State, t types.Type, ref string) {
	n, ok := t.(*types.Named)
	if !ok {
		return
	}
	var keys []string
	for k, gf := range fv.u.db.GFields {
		if gf.Struct == n.Obj().Name() {
			keys = append(keys, k)
		}
	}
	sortStrings(keys)
	for _, k := range keys {
		gf := fv.u.db.GFields[k]
		hk := "G_" + gf.Struct + "_" + gf.Name
		fv.setHeapK(st, hk, gf.Sort, fmt.Sprintf("(store %s %s %s)", fv.ghostHeap(st, gf), ref, fv.u.zero(gf.Sort)))
	}
}

type localAlloc struct {
	instr *ssa.Alloc
	ref   string
	sort  string
}

// privateInLoop: the local is only accessed through field/index addressing
// (it never escapes to a call, an interface, another variable or a phi), and
// no store inside the loop blocks targets it. Its content is then unchanged by
// the loop.
func privateInLoop(a *ssa.Alloc, blocks map[*ssa.BasicBlock]bool) bool {
	var ok func(v ssa.Value, depth int) bool
	ok = func(v ssa.Value, depth int) bool {
		if depth > 6 || v.Referrers() == nil {
			return false
		}
		for _, u := range *v.Referrers() {
			switch x := u.(type) {
			case *ssa.FieldAddr:
				if !ok(x, depth+1) {
					return false
				}
			case *ssa.IndexAddr:
				if x.X != v || !ok(x, depth+1) {
					return false
				}
			case *ssa.UnOp:
				// load
			case *ssa.Store:
				if x.Val == v {
					return false // the address itself is stored somewhere
				}
				if blocks[x.Block()] {
					return false
				}
			case *ssa.DebugRef:
			default:
				return false
			}
		}
		return true
	}
	return ok(a, 0)
}
