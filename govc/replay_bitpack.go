package main

import (
	"fmt"
	"regexp"
	"strings"
)

// Replay driver for internal/bitpack: runs the real function on the model's
// input (and, as a fallback, a differential sweep) against a reference
// implementation of the format's bit layout written here from the spec.
func init() {
	replayDrivers = append(replayDrivers, replayDriver{regexp.MustCompile(`internal/bitpack::`), replayBitpack})
}

const bitpackRef = `
func refPack(w int, b []byte, vals []uint8) []byte {
	var word uint64
	for e := 0; e < 8; e++ {
		word |= uint64(vals[e]&(1<<uint(w)-1)) << uint(w*e)
	}
	out := append([]byte{}, b...)
	for k := 0; k < w; k++ {
		out = append(out, byte(word>>(8*uint(k))))
	}
	return out
}
func refUnpack(w int, g []byte) []uint8 {
	var word uint64
	for k := 0; k < w; k++ {
		word |= uint64(g[k]) << (8 * uint(k))
	}
	out := make([]uint8, 8)
	for e := 0; e < 8; e++ {
		out[e] = uint8(word >> uint(w*e) & (1<<uint(w) - 1))
	}
	return out
}
func eq(a, b []byte) bool {
	if len(a) != len(b) { return false }
	for i := range a { if a[i] != b[i] { return false } }
	return true
}
`

func replayBitpack(e *Engine, ob *Obligation, o checkOpts, body map[string]interface{}) (bool, string) {
	inputs, _ := body["model_inputs"].(map[string]string)
	get := func(name string, n int) []int64 {
		var out []int64
		for i := 0; i < n; i++ {
			v, ok := smtNum(inputs[fmt.Sprintf("%s[%d]", name, i)])
			if !ok {
				v = 0
			}
			out = append(out, v&255)
		}
		return out
	}
	lit := func(v []int64) string {
		var s []string
		for _, x := range v {
			s = append(s, fmt.Sprint(x))
		}
		return "[]byte{" + strings.Join(s, ", ") + "}"
	}
	vals := get("vals", 8)
	group := get("group", 4)
	var b strings.Builder
	b.WriteString("package bitpack\n\nimport (\n\t\"math/rand\"\n\t\"testing\"\n)\n" + bitpackRef)
	fmt.Fprintf(&b, `
func TestGovcReplay(t *testing.T) {
	modelVals := %s
	modelGroup := %s
	check := func(vals []uint8, g []byte) {
		for w := 1; w <= 4; w++ {
			var got []byte
			switch w {
			case 1: got = pack1([]byte{9}, vals)
			case 2: got = pack2([]byte{9}, vals)
			case 3: got = pack3([]byte{9}, vals)
			case 4: got = pack4([]byte{9}, vals)
			}
			if want := refPack(w, []byte{9}, vals); !eq(got, want) {
				t.Fatalf("REPLAY-FAIL pack%%d(vals=%%v) = %%v, specification layout = %%v", w, vals, got, want)
			}
			if got, want := Pack([]byte{9}, w, vals), refPack(w, []byte{9}, vals); !eq(got, want) {
				t.Fatalf("REPLAY-FAIL Pack(width=%%d, vals=%%v) = %%v, specification layout = %%v", w, vals, got, want)
			}
			var u []uint8
			switch w {
			case 1: u = unpack1(g)
			case 2: u = unpack2(g)
			case 3: u = unpack3(g)
			case 4: u = unpack4(g)
			}
			if want := refUnpack(w, g); !eq(u, want) {
				t.Fatalf("REPLAY-FAIL unpack%%d(bytes=%%v) = %%v, specification layout = %%v", w, g[:w], u, want)
			}
			if got, want := Unpack(w, g), refUnpack(w, g); !eq(got, want) {
				t.Fatalf("REPLAY-FAIL Unpack(width=%%d, bytes=%%v) = %%v, specification layout = %%v", w, g[:w], got, want)
			}
			masked := make([]uint8, 8)
			for i := range masked { masked[i] = vals[i] & (1<<uint(w) - 1) }
			if rt := Unpack(w, Pack(nil, w, masked)); !eq(rt, masked) {
				t.Fatalf("REPLAY-FAIL round trip width %%d: %%v -> %%v", w, masked, rt)
			}
			if rt := Pack(nil, w, Unpack(w, g)); !eq(rt, g[:w]) {
				t.Fatalf("REPLAY-FAIL reverse round trip width %%d: %%v -> %%v", w, g[:w], rt)
			}
		}
	}
	check(modelVals, modelGroup)
	// fallback: differential sweep (bounded search, seed fixed)
	r := rand.New(rand.NewSource(%d))
	for i := 0; i < 300000; i++ {
		v := make([]uint8, 8)
		g := make([]byte, 4)
		for j := range v { v[j] = uint8(r.Intn(256)) }
		for j := range g { g[j] = uint8(r.Intn(256)) }
		check(v, g)
	}
}
`, lit(vals), lit(group), o.seed+1)
	src := b.String()
	body["replay_test"] = src
	body["replay_pkg"] = "internal/bitpack"
	body["replay_tags"] = ""
	out, err := runOverlayTest(o.repo, "internal/bitpack", src, "TestGovcReplay", "")
	if err != nil && strings.Contains(out, "REPLAY-FAIL") {
		for _, l := range strings.Split(out, "\n") {
			if strings.Contains(l, "REPLAY-FAIL") {
				return true, "real code disagrees with the specification: " + strings.TrimSpace(l)
			}
		}
	}
	if err != nil {
		return false, "replay could not run: " + truncate(out, 1500)
	}
	return false, "replay: real code agrees with the reference on the model input and on a 300000-case sweep"
}
