#!/usr/bin/env python3
# refresh MANIFEST.hooks.source_commits: every commit of /repo since the pinned commit that is not a "fix:" repair
import json, subprocess
out = subprocess.run(['git','-C','/repo','log','--reverse','--format=%H %s','4a92e04..HEAD'],capture_output=True,text=True).stdout.strip().split('\n')
hooks=[l.split(' ',1)[0] for l in out if l and not l.split(' ',1)[1].startswith('fix:')]
m=json.load(open('/verif/MANIFEST.json'))
m['hooks']['source_commits']=hooks
for e in m['engines']:
    if e['name']=='govc': e['serves_properties']=sorted(c['property_id'] for c in m['checks'])
json.dump(m,open('/verif/MANIFEST.json','w'),indent=1)
print(len(hooks),'hook commits;', len(out)-len(hooks),'fix commits')
