package nest3

// Nest3: required / optional / repeated groups nested to depth 3, leaves in
// first and non-first sibling positions, the group name "inner" under two
// parents. (Each group position uses its own Go type: reusing one struct type
// in several positions makes parquetgen emit code that does not compile.)
type ReqInner struct {
	A int32   `parquet:"a"`
	B *string `parquet:"b"`
}

type OptInner struct {
	C []int64 `parquet:"c"`
	D string  `parquet:"d"`
}

type RepInner struct {
	E int64    `parquet:"e"`
	F []string `parquet:"f"`
}

type Left struct {
	Inner ReqInner `parquet:"inner"`
	Flag  bool     `parquet:"flag"`
}

type Right struct {
	Inner *OptInner `parquet:"inner"`
	N     *int32    `parquet:"n"`
}

type Many struct {
	Items []RepInner `parquet:"items"`
	W     float64    `parquet:"w"`
}

type Nest3 struct {
	ID    int64  `parquet:"id"`
	Left  Left   `parquet:"left"`
	Right *Right `parquet:"right"`
	Many  []Many `parquet:"many"`
	Name  string `parquet:"name"`
}
