package doc

// Document is the record type of the Dremel paper.
type Link struct {
	Backward []int64 `parquet:"backward"`
	Forward  []int64 `parquet:"forward"`
}

type Language struct {
	Code    string  `parquet:"code"`
	Country *string `parquet:"country"`
}

type Name struct {
	Languages []Language `parquet:"languages"`
	URL       *string    `parquet:"url"`
}

type Document struct {
	DocID int64  `parquet:"docid"`
	Links *Link  `parquet:"link"`
	Names []Name `parquet:"names"`
}
