package alltypes

// AllTypes instantiates every field type, every stats type and both
// compression helpers of the generator: the eight primitive types as
// required, optional and repeated flat fields.
type AllTypes struct {
	I32  int32     `parquet:"i32"`
	I64  int64     `parquet:"i64"`
	U32  uint32    `parquet:"u32"`
	U64  uint64    `parquet:"u64"`
	F32  float32   `parquet:"f32"`
	F64  float64   `parquet:"f64"`
	B    bool      `parquet:"b"`
	S    string    `parquet:"s"`
	OI32 *int32    `parquet:"oi32"`
	OI64 *int64    `parquet:"oi64"`
	OU32 *uint32   `parquet:"ou32"`
	OU64 *uint64   `parquet:"ou64"`
	OF32 *float32  `parquet:"of32"`
	OF64 *float64  `parquet:"of64"`
	OB   *bool     `parquet:"ob"`
	OS   *string   `parquet:"os"`
	RI32 []int32   `parquet:"ri32"`
	RI64 []int64   `parquet:"ri64"`
	RU32 []uint32  `parquet:"ru32"`
	RU64 []uint64  `parquet:"ru64"`
	RF32 []float32 `parquet:"rf32"`
	RF64 []float64 `parquet:"rf64"`
	RB   []bool    `parquet:"rb"`
	RS   []string  `parquet:"rs"`
}
