package deep

// Deep: groups nested three levels, the group name "inner" under two
// different parents, a repeated group inside a repeated group (the shape of
// the Dremel paper's Document), leaves before and after groups.
type Lang struct {
	Code    string  `parquet:"code"`
	Country *string `parquet:"country"`
}

type Name struct {
	Languages []Lang  `parquet:"languages"`
	URL       *string `parquet:"url"`
}

type Links struct {
	Backward []int64 `parquet:"backward"`
	Forward  []int64 `parquet:"forward"`
}

type InA struct {
	X int32 `parquet:"x"`
}

type InB struct {
	X *float32 `parquet:"x"`
	Y bool     `parquet:"y"`
}

type SideA struct {
	Inner InA `parquet:"inner"`
}

type SideB struct {
	Inner *InB `parquet:"inner"`
}

// chains of required (R), optional (O) and repeated (P) nodes above a list:
// R.O.P, R.R.O.P, R.O.R.P, R.O.O.P, O.R.O.P (an optional group above two nested lists is the
// shape of known finding D10 and lives in ../opp)
type Owner struct {
	Tags []string `parquet:"tags"`
	Name string   `parquet:"name"`
}

type Meta struct {
	Owner *Owner `parquet:"owner"`
	Rev   int32  `parquet:"rev"`
}

type Own2 struct {
	L []int32 `parquet:"l"`
}

type Mid2 struct {
	Own *Own2 `parquet:"own"`
}

type Box struct {
	Mid Mid2 `parquet:"mid"`
}

type In3 struct {
	L []int64 `parquet:"l"`
}

type Own3 struct {
	Inner In3 `parquet:"inner"`
}

type Top3 struct {
	Own *Own3 `parquet:"own"`
}

type In4 struct {
	L []string `parquet:"l"`
}

type Own4 struct {
	Deepr *In4 `parquet:"deepr"`
}

type Top4 struct {
	Own *Own4 `parquet:"own"`
}

type Own6 struct {
	L []bool `parquet:"l"`
}

type Mid6 struct {
	Own *Own6 `parquet:"own"`
}

type Top6 struct {
	Mid Mid6 `parquet:"mid"`
}

type Deep struct {
	DocID int64  `parquet:"docid"`
	Links *Links `parquet:"links"`
	Names []Name `parquet:"names"`
	A     SideA  `parquet:"a"`
	B     *SideB `parquet:"b"`
	Meta  Meta   `parquet:"meta"`
	Box   Box    `parquet:"box"`
	T3    Top3   `parquet:"t3"`
	T4    Top4   `parquet:"t4"`
	T6    *Top6  `parquet:"t6"`
	Tail  string `parquet:"tail"`
}
