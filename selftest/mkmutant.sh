#!/bin/bash
# usage: mkmutant.sh <name> <property[,property]> <violation|silent> <note> <<'PY'
#   python code editing files relative to the repository root (run in a scratch copy)
# PY
set -e
name=$1; prop=$2; expect=$3; note=$4
T=$(mktemp -d); trap 'rm -rf $T' EXIT
cp -a /repo $T/repo
cd $T/repo
python3 - 
git diff > $T/p.diff
if [ ! -s $T/p.diff ]; then echo "EMPTY DIFF for $name" >&2; exit 1; fi
d=/verif/selftest/mutants; [ "$expect" = silent ] && d=/verif/selftest/neutral
{ echo "# property: $prop"; echo "# expect: $expect"; echo "# note: $note"; cat $T/p.diff; } > $d/$name.diff
echo "wrote $d/$name.diff ($(grep -c '^[-+][^-+]' $T/p.diff) changed lines)"
