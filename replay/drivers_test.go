package replay

// Dynamic replay drivers: bounded searches for a concrete failing input on
// the real (freshly generated) code, run when a proof obligation of the
// corresponding property fails. A line starting with REPLAY-FAIL is a
// confirmed failing input.

import (
	"bytes"
	"context"
	"errors"
	"fmt"
	"io"
	"math"
	"math/rand"
	"os"
	"reflect"
	"strings"
	"testing"

	"github.com/apache/thrift/lib/go/thrift"
	"github.com/parsyl/parquet"
	sch "github.com/parsyl/parquet/schema"
	"replay/fcheck"
)

// thorough reports whether the check runs in the thorough tier (larger bounds).
func thorough() bool { return os.Getenv("VERIF_TIER") == "thorough" }

func sp(s string) *string   { return &s }
func ip(i int32) *int32     { return &i }
func fp(f float64) *float64 { return &f }
func bp(b bool) *bool       { return &b }

func recs(n int, seed int64) []Rec {
	r := rand.New(rand.NewSource(seed))
	out := make([]Rec, n)
	for i := range out {
		x := Rec{ID: int64(i*7 - 3), Flag: i%3 == 0, Count: uint32(r.Intn(1 << 20)), Amount: int32(1000 + i)}
		if i%2 == 0 {
			x.Name = sp(fmt.Sprintf("name-%d", i))
		}
		for j := 0; j < i%4; j++ {
			x.Tags = append(x.Tags, fmt.Sprintf("t%d-%d", i, j))
		}
		if i%3 != 1 {
			x.Ratio = fp(float64(i) * 1.5)
		}
		if i%5 == 0 {
			x.Maybe = bp(i%2 == 0)
		}
		for j := 0; j < (i+1)%3; j++ {
			in := Inner{Code: fmt.Sprintf("c%d", j)}
			if j%2 == 0 {
				in.Score = ip(int32(i + j))
			}
			x.Items = append(x.Items, in)
		}
		out[i] = x
	}
	return out
}

var codecs = map[string]func(*ParquetWriter) error{"uncompressed": Uncompressed, "snappy": Snappy, "gzip": Gzip}

func writeFile(t testing.TB, rs []Rec, pageSize int, batches []int, codec func(*ParquetWriter) error) []byte {
	var buf bytes.Buffer
	w, err := NewParquetWriter(&buf, MaxPageSize(pageSize), codec)
	if err != nil {
		t.Fatal(err)
	}
	i := 0
	for _, b := range batches {
		for j := 0; j < b && i < len(rs); j++ {
			w.Add(rs[i])
			i++
		}
		if err := w.Write(); err != nil {
			t.Fatal(err)
		}
	}
	if err := w.Close(); err != nil {
		t.Fatal(err)
	}
	return buf.Bytes()
}

func norm(x Rec) Rec {
	if len(x.Tags) == 0 {
		x.Tags = nil
	}
	if len(x.Items) == 0 {
		x.Items = nil
	}
	return x
}

func readAll(r io.ReadSeeker) (out []Rec, err error) {
	pr, err := NewParquetReader(r)
	if err != nil {
		return nil, err
	}
	for pr.Next() {
		var x Rec
		pr.Scan(&x)
		out = append(out, norm(x))
	}
	return out, pr.Error()
}

// ---- C09: failing sink

type failSink struct {
	n      int
	failAt int
	sticky bool
	failed int
}

func (s *failSink) Write(p []byte) (int, error) {
	k := s.n
	s.n++
	if k == s.failAt || (s.sticky && k > s.failAt) {
		s.failed++
		return 0, errors.New("sink failure")
	}
	return len(p), nil
}

func TestReplayC09(t *testing.T) {
	rs := recs(7, 1)
	for name, codec := range codecs {
		for _, sticky := range []bool{false, true} {
			for k := 0; k < 400; k++ {
				s := &failSink{failAt: k, sticky: sticky}
				func() {
					defer func() {
						if r := recover(); r != nil {
							t.Errorf("REPLAY-FAIL C09 codec=%s sticky=%v k=%d: panic %v", name, sticky, k, r)
						}
					}()
					w, err := NewParquetWriter(s, MaxPageSize(2), codec)
					before := s.failed
					if s.failed > 0 && err == nil {
						t.Errorf("REPLAY-FAIL C09 codec=%s sticky=%v k=%d: NewParquetWriter returned nil although a sink write failed", name, sticky, k)
					}
					if err != nil {
						return
					}
					for i, x := range rs {
						w.Add(x)
						if s.failed != before {
							t.Errorf("REPLAY-FAIL C09 codec=%s k=%d: Add wrote to the sink and the failure was lost", name, k)
							before = s.failed
						}
						if i == 4 {
							err := w.Write()
							if s.failed != before && err == nil {
								t.Errorf("REPLAY-FAIL C09 codec=%s sticky=%v k=%d: Write returned nil although %d sink write(s) failed during it", name, sticky, k, s.failed-before)
							}
							before = s.failed
						}
					}
					err = w.Write()
					if s.failed != before && err == nil {
						t.Errorf("REPLAY-FAIL C09 codec=%s sticky=%v k=%d: Write returned nil although a sink write failed during it", name, sticky, k)
					}
					before = s.failed
					err = w.Close()
					if s.failed != before && err == nil {
						t.Errorf("REPLAY-FAIL C09 codec=%s sticky=%v k=%d: Close returned nil although a sink write failed during it", name, sticky, k)
					}
				}()
				if s.n <= k {
					break // k is beyond the number of writes of this workload
				}
			}
		}
	}
}

// ---- C10 / C08: failing and fragmenting sources

type scriptedSource struct {
	data        []byte
	pos         int64
	calls       int
	failAt      int // index of the Read/Seek call that fails (-1: never)
	chunk       int // max bytes per Read (0: unlimited)
	rnd         *rand.Rand
	eofWithData bool
	failed      bool
}

func (s *scriptedSource) Read(p []byte) (int, error) {
	k := s.calls
	s.calls++
	if k == s.failAt {
		s.failed = true
		return 0, errors.New("source failure")
	}
	if s.pos >= int64(len(s.data)) {
		return 0, io.EOF
	}
	n := len(p)
	if s.chunk > 0 && n > s.chunk {
		n = s.chunk
	}
	if s.rnd != nil && n > 1 {
		n = 1 + s.rnd.Intn(n)
	}
	n = copy(p[:n], s.data[s.pos:])
	s.pos += int64(n)
	if s.eofWithData && s.pos == int64(len(s.data)) {
		return n, io.EOF
	}
	return n, nil
}

func (s *scriptedSource) Seek(off int64, whence int) (int64, error) {
	k := s.calls
	s.calls++
	if k == s.failAt {
		s.failed = true
		return 0, errors.New("seek failure")
	}
	var np int64
	switch whence {
	case io.SeekStart:
		np = off
	case io.SeekCurrent:
		np = s.pos + off
	case io.SeekEnd:
		np = int64(len(s.data)) + off
	}
	if np < 0 {
		return 0, errors.New("negative position")
	}
	s.pos = np
	return np, nil
}

func TestReplayC10(t *testing.T) {
	rs := recs(9, 2)
	want := make([]Rec, len(rs))
	for i := range rs {
		want[i] = norm(rs[i])
	}
	for name, codec := range codecs {
		file := writeFile(t, rs, 3, []int{5, 4}, codec)
		for k := 0; k < 5000; k++ {
			s := &scriptedSource{data: file, failAt: k}
			done := false
			func() {
				defer func() {
					if r := recover(); r != nil {
						t.Errorf("REPLAY-FAIL C10 codec=%s k=%d: panic: %v", name, k, r)
					}
				}()
				got, err := readAll(s)
				if !s.failed {
					done = true
					return
				}
				if err != nil {
					return
				}
				// no error reported: every row delivered must be correct and none missing
				if !reflect.DeepEqual(got, want) {
					t.Errorf("REPLAY-FAIL C10 codec=%s k=%d: call %d on the source failed, no error was reported and the rows are wrong (%d rows, want %d)", name, k, k, len(got), len(want))
				}
			}()
			if done {
				break
			}
		}
	}
}

func TestReplayC08(t *testing.T) {
	rs := recs(11, 3)
	want := make([]Rec, len(rs))
	for i := range rs {
		want[i] = norm(rs[i])
	}
	for name, codec := range codecs {
		file := writeFile(t, rs, 4, []int{6, 5}, codec)
		try := func(desc string, s *scriptedSource) {
			defer func() {
				if r := recover(); r != nil {
					t.Errorf("REPLAY-FAIL C08 codec=%s %s: panic: %v", name, desc, r)
				}
			}()
			got, err := readAll(s)
			if err != nil {
				t.Errorf("REPLAY-FAIL C08 codec=%s %s: error %v on a valid file", name, desc, err)
				return
			}
			if !reflect.DeepEqual(got, want) {
				t.Errorf("REPLAY-FAIL C08 codec=%s %s: rows differ", name, desc)
			}
		}
		for _, c := range []int{1, 2, 3, 7, 64} {
			try(fmt.Sprintf("chunk=%d", c), &scriptedSource{data: file, failAt: -1, chunk: c})
		}
		for seed := int64(0); seed < 5; seed++ {
			try(fmt.Sprintf("random short reads seed=%d", seed), &scriptedSource{data: file, failAt: -1, rnd: rand.New(rand.NewSource(seed))})
		}
		try("data together with EOF", &scriptedSource{data: file, failAt: -1, eofWithData: true})
	}
}

// ---- C11: truncation

func TestReplayC11(t *testing.T) {
	// The second batch carries, inside a string value, the trailer
	// <footer><length> of a complete file that consists of the first batch
	// only. The prefix ending 4 bytes after that embedded length is what an
	// interrupted upload could leave behind; it must not be accepted.
	first := recs(3, 4)
	for name, codec := range codecs {
		inner := writeFile(t, first, 3, []int{3}, codec)
		fl := int(uint32(inner[len(inner)-8]) | uint32(inner[len(inner)-7])<<8 | uint32(inner[len(inner)-6])<<16 | uint32(inner[len(inner)-5])<<24)
		tail := inner[len(inner)-8-fl : len(inner)-4]
		second := recs(3, 5)
		second[0].Name = sp(string(tail))
		var all []Rec
		all = append(all, first...)
		all = append(all, second...)
		// further values that look like a trailer: a footer length of 0, 1, 2 and one that
		// points before the start of the file
		third := recs(4, 6)
		third[0].Name = sp("\x00\x00\x00\x00PAR1")
		third[1].Name = sp("\x01\x00\x00\x00PAR1")
		third[2].Name = sp("x\x02\x00\x00\x00PAR1")
		third[3].Name = sp("\xff\xff\xff\x7fPAR1")
		all = append(all, third...)
		// ... and trailers whose length word addresses a short fragment that starts like a
		// thrift struct but runs into the end of the prefix (a field header announcing a
		// string, list, struct or varint that is cut off)
		var frags []string
		for _, b0 := range []byte{0x15, 0x16, 0x18, 0x19, 0x1c, 0x28, 0x2c} {
			for _, b1 := range []byte{0x08, 0x7f, 0x80, 0xff} {
				frags = append(frags, string([]byte{b0, b1, 2, 0, 0, 0})+"PAR1")
				frags = append(frags, string([]byte{b0, b1, 0x80, 3, 0, 0, 0})+"PAR1")
			}
		}
		fourth := recs(len(frags), 7)
		for i := range fourth {
			fourth[i].Name = sp(frags[i])
		}
		all = append(all, fourth...)
		file := writeFile(t, all, 3, []int{3, 3, 4, len(frags)}, codec)
		for n := 0; n < len(file); n++ {
			func() {
				defer func() {
					if r := recover(); r != nil {
						t.Errorf("REPLAY-FAIL C11 codec=%s prefix=%d/%d: panic: %v", name, n, len(file), r)
					}
				}()
				got, err := readAll(bytes.NewReader(file[:n]))
				if err == nil {
					t.Errorf("REPLAY-FAIL C11 codec=%s: the %d-byte prefix of a %d-byte file was accepted (%d rows delivered, no error)", name, n, len(file), len(got))
				}
			}()
		}
	}
}

// ---- C18: unsupported features

type countReader struct {
	r io.Reader
	n int
}

func (c *countReader) Read(p []byte) (int, error) {
	n, err := c.r.Read(p)
	c.n += n
	return n, err
}

func TestReplayC18(t *testing.T) {
	rs := recs(7, 6)
	ser := thrift.NewTSerializer()
	ser.Protocol = thrift.NewTCompactProtocolFactory().GetProtocol(ser.Transport)
	for name, codec := range codecs {
		file := writeFile(t, rs, 3, []int{4, 3}, codec)
		footer, err := parquet.ReadMetaData(bytes.NewReader(file))
		if err != nil {
			t.Fatal(err)
		}
		type pagePos struct {
			off, hlen int
			ph        *sch.PageHeader
			col       string
			levels    bool
		}
		var pages []pagePos
		for _, rg := range footer.RowGroups {
			for _, col := range rg.Columns {
				off := int(col.FileOffset)
				end := off + int(col.MetaData.TotalCompressedSize)
				for off < end {
					cr := &countReader{r: bytes.NewReader(file[off:])}
					ph, err := parquet.PageHeader(cr)
					if err != nil {
						t.Fatal(err)
					}
					path := fmt.Sprint(col.MetaData.PathInSchema)
					lv := path != "[id]" && path != "[flag]" && path != "[count]" && path != "[amount]"
					pages = append(pages, pagePos{off, cr.n, ph, path, lv})
					off += cr.n + int(ph.CompressedPageSize)
				}
			}
		}
		mutate := func(desc string, pp pagePos, f func(h *sch.PageHeader)) {
			h := *pp.ph
			d := *pp.ph.DataPageHeader
			h.DataPageHeader = &d
			f(&h)
			b, err := ser.Write(context.TODO(), &h)
			if err != nil {
				t.Fatal(err)
			}
			if len(b) != pp.hlen {
				return // re-encoding changed the header length; skip this variant
			}
			mod := append([]byte{}, file...)
			copy(mod[pp.off:], b)
			func() {
				defer func() {
					if r := recover(); r != nil {
						t.Errorf("REPLAY-FAIL C18 codec=%s column=%s page@%d %s: panic: %v", name, pp.col, pp.off, desc, r)
					}
				}()
				got, err := readAll(bytes.NewReader(mod))
				if err == nil {
					t.Errorf("REPLAY-FAIL C18 codec=%s column=%s page@%d %s: file accepted, %d rows delivered, no error", name, pp.col, pp.off, desc, len(got))
				}
			}()
		}
		for _, pp := range pages {
			mutate("type=DICTIONARY_PAGE", pp, func(h *sch.PageHeader) { h.Type = sch.PageType_DICTIONARY_PAGE })
			mutate("type=DATA_PAGE_V2", pp, func(h *sch.PageHeader) { h.Type = sch.PageType_DATA_PAGE_V2 })
			mutate("type=INDEX_PAGE", pp, func(h *sch.PageHeader) { h.Type = sch.PageType_INDEX_PAGE })
			mutate("encoding=RLE_DICTIONARY", pp, func(h *sch.PageHeader) { h.DataPageHeader.Encoding = sch.Encoding_RLE_DICTIONARY })
			mutate("encoding=PLAIN_DICTIONARY", pp, func(h *sch.PageHeader) { h.DataPageHeader.Encoding = sch.Encoding_PLAIN_DICTIONARY })
			mutate("encoding=DELTA_BINARY_PACKED", pp, func(h *sch.PageHeader) { h.DataPageHeader.Encoding = sch.Encoding_DELTA_BINARY_PACKED })
			if pp.levels {
				mutate("definition_level_encoding=BIT_PACKED", pp, func(h *sch.PageHeader) { h.DataPageHeader.DefinitionLevelEncoding = sch.Encoding_BIT_PACKED })
			}
			if pp.col == "[tags]" || pp.col == "[items code]" || pp.col == "[items score]" {
				mutate("repetition_level_encoding=BIT_PACKED", pp, func(h *sch.PageHeader) { h.DataPageHeader.RepetitionLevelEncoding = sch.Encoding_BIT_PACKED })
			}
		}
		// a dictionary page without a data page header at all (first page of a chunk)
		for _, pp := range pages[:1] {
			h := sch.PageHeader{Type: sch.PageType_DICTIONARY_PAGE, UncompressedPageSize: pp.ph.UncompressedPageSize, CompressedPageSize: pp.ph.CompressedPageSize,
				DictionaryPageHeader: &sch.DictionaryPageHeader{NumValues: 1, Encoding: sch.Encoding_PLAIN}}
			b, _ := ser.Write(context.TODO(), &h)
			mod := append(append(append([]byte{}, file[:pp.off]...), b...), file[pp.off+pp.hlen:]...)
			func() {
				defer func() {
					if r := recover(); r != nil {
						t.Errorf("REPLAY-FAIL C18 codec=%s: dictionary page without data page header: panic: %v", name, r)
					}
				}()
				if got, err := readAll(bytes.NewReader(mod)); err == nil {
					t.Errorf("REPLAY-FAIL C18 codec=%s: dictionary page accepted, %d rows", name, len(got))
				}
			}()
		}
		// one column chunk labelled with a codec the reader does not implement (every chunk of
		// every row group in turn; the pages themselves are untouched, so in an uncompressed
		// file the two page sizes agree)
		fsize := int(file[len(file)-8]) | int(file[len(file)-7])<<8 | int(file[len(file)-6])<<16 | int(file[len(file)-5])<<24
		body := file[:len(file)-8-fsize]
		for gi, rg := range footer.RowGroups {
			for _, col := range rg.Columns {
				for _, cc := range []sch.CompressionCodec{sch.CompressionCodec_LZO, sch.CompressionCodec_BROTLI, sch.CompressionCodec_LZ4, sch.CompressionCodec_ZSTD, sch.CompressionCodec(9)} {
					orig := col.MetaData.Codec
					col.MetaData.Codec = cc
					b, err := ser.Write(context.TODO(), footer)
					col.MetaData.Codec = orig
					if err != nil {
						t.Fatal(err)
					}
					mod := append(append([]byte{}, body...), b...)
					mod = append(mod, byte(len(b)), byte(len(b)>>8), byte(len(b)>>16), byte(len(b)>>24), 'P', 'A', 'R', '1')
					func() {
						defer func() {
							if r := recover(); r != nil {
								t.Errorf("REPLAY-FAIL C18 codec=%s row group %d column=%v chunk codec=%v: panic: %v", name, gi, col.MetaData.PathInSchema, cc, r)
							}
						}()
						if got, err := readAll(bytes.NewReader(mod)); err == nil {
							t.Errorf("REPLAY-FAIL C18 codec=%s row group %d column=%v chunk codec=%v: file accepted, %d rows delivered, no error", name, gi, col.MetaData.PathInSchema, cc, len(got))
						}
					}()
				}
			}
		}
	}
}

// ---- C13: instances do not interfere (bounded: a few concurrent schedules under the race detector)

func TestBoundedC13(t *testing.T) {
	rs := recs(40, 13)
	want := map[string][]byte{}
	for name, codec := range codecs {
		want[name] = writeFile(t, rs, 7, []int{25, 15}, codec)
	}
	// dirty the pools with other workloads first
	for i := 0; i < 5; i++ {
		writeFile(t, recs(60+i, int64(i)), 3, []int{60 + i}, Snappy)
	}
	// instances abandoned half-way must leave nothing behind for later ones: readers whose
	// source fails at call k, a reader that skips rows and is dropped, a writer dropped with
	// records pending
	wantRows, err := readAll(bytes.NewReader(want["uncompressed"]))
	if err != nil {
		t.Fatal(err)
	}
	for name := range codecs {
		for k := 0; k < 60; k += 2 {
			func() {
				defer func() { recover() }()
				readAll(&scriptedSource{data: want[name], failAt: k})
			}()
		}
		if pr, err := NewParquetReader(bytes.NewReader(want[name])); err == nil {
			for i := 0; i < 30 && pr.Next(); i++ {
			}
		}
	}
	if w, err := NewParquetWriter(io.Discard, MaxPageSize(4)); err == nil {
		for _, x := range recs(11, 99) {
			w.Add(x)
		}
	}
	for name := range codecs {
		back, err := readAll(bytes.NewReader(want[name]))
		if err != nil || !reflect.DeepEqual(back, wantRows) {
			t.Errorf("REPLAY-FAIL C13 codec=%s: a reader that follows abandoned readers in the same process returns different records (err=%v)", name, err)
		}
		if got := writeFile(t, rs, 7, []int{25, 15}, codecs[name]); !bytes.Equal(got, want[name]) {
			t.Errorf("REPLAY-FAIL C13 codec=%s: a writer that follows abandoned instances produces different bytes", name)
		}
	}
	done := make(chan string, 64)
	n := 0
	for g := 0; g < 8; g++ {
		for name, codec := range codecs {
			n++
			go func(name string, codec func(*ParquetWriter) error, g int) {
				got := writeFile(t, rs, 7, []int{25, 15}, codec)
				if !bytes.Equal(got, want[name]) {
					done <- fmt.Sprintf("REPLAY-FAIL C13 codec=%s goroutine=%d: output differs from the sequential run of the same history", name, g)
					return
				}
				back, err := readAll(bytes.NewReader(got))
				if err != nil || len(back) != len(rs) {
					done <- fmt.Sprintf("REPLAY-FAIL C13 codec=%s goroutine=%d: concurrent read back failed: %v", name, g, err)
					return
				}
				if !reflect.DeepEqual(back, wantRows) {
					done <- fmt.Sprintf("REPLAY-FAIL C13 codec=%s goroutine=%d: the records read back differ from those of the first reader of the same file", name, g)
					return
				}
				done <- ""
			}(name, codec, g)
		}
	}
	for i := 0; i < n; i++ {
		if m := <-done; m != "" {
			t.Error(m)
		}
	}
	t.Logf("BOUNDED-C13 goroutines=%d", n)
}

// ---- C12: statistics

func TestReplayC12(t *testing.T) {
	r := rand.New(rand.NewSource(5))
	pool := []string{"", "a", "__#NIL#__", "z", "\xff\x00", "kiwi", "plum", "apple", "Z",
		// long values sharing long prefixes: bounds must not be shortened
		"customer/0000000000000001", "customer/0000000000000000", "zzzzzzzzzzzzzzzzzzzzzzzzzzzzzzzzzzzzzzzz", "zzzzzzzzzzzzzzzz", strings.Repeat("\xff", 70)}
	for round := 0; round < 60; round++ {
		n := 1 + r.Intn(9)
		rs := recs(n, int64(round))
		for i := range rs {
			rs[i].Tags = nil
			for j := 0; j < r.Intn(4); j++ {
				rs[i].Tags = append(rs[i].Tags, pool[r.Intn(len(pool))])
			}
			if r.Intn(2) == 0 {
				rs[i].Name = sp(pool[r.Intn(len(pool))])
			} else {
				rs[i].Name = nil
			}
			rs[i].Count = uint32(r.Int63()) | uint32(r.Intn(2))<<31
			rs[i].ID = r.Int63() - r.Int63()
			rs[i].Amount = int32(r.Int63())
			if r.Intn(3) == 0 {
				rs[i].Ratio = fp([]float64{math.NaN(), math.Inf(1), math.Inf(-1), -1.5, 0, 2.5}[r.Intn(6)])
			}
		}
		page := 1 + r.Intn(4)
		// one to three row groups: an accumulator that survives from one row group into the
		// next (or a page of the overflow chain) shows as min/max on an all-null page or
		// as bounds that miss values
		batches := []int{n}
		if n >= 2 && round%3 != 0 {
			a := 1 + r.Intn(n-1)
			batches = []int{a, n - a}
			if n-a >= 2 && round%3 == 2 {
				b := 1 + r.Intn(n-a-1)
				batches = []int{a, b, n - a - b}
			}
		}
		file := writeFile(t, rs, page, batches, Uncompressed)
		footer, err := parquet.ReadMetaData(bytes.NewReader(file))
		if err != nil {
			t.Fatal(err)
		}
		hs, err := parquet.PageHeaders(footer, bytes.NewReader(file))
		if err != nil {
			t.Fatal(err)
		}
		// pages come column by column; recompute each page's values from the records
		cols := []struct {
			name string
			vals func(x Rec) (vals [][]byte, nulls int)
			less func(a, b []byte) bool
		}{}
		_ = cols
		allHs, allRs := reflect.ValueOf(hs), rs
		ncols := len(footer.RowGroups[0].Columns)
		hoff, roff := 0, 0
		for _, nb := range batches {
			np := (nb + page - 1) / page
			hs := allHs.Slice(hoff, hoff+ncols*np).Interface()
			rs := allRs[roff : roff+nb]
			hoff += ncols * np
			roff += nb
			checkStringCol(t, "name", hs, rs, page, round)
			// numeric columns (schema order: id 0, ratio 4, count 5, amount 9): bounds in the column type's order
			checkNumCol(t, "id", 0, hs, rs, page, round, func(x Rec) (float64, int64, uint64, bool) { return 0, x.ID, 0, true }, 'i', 8)
			checkNumCol(t, "count", 5, hs, rs, page, round, func(x Rec) (float64, int64, uint64, bool) { return 0, 0, uint64(x.Count), true }, 'u', 4)
			checkNumCol(t, "amount", 9, hs, rs, page, round, func(x Rec) (float64, int64, uint64, bool) { return 0, int64(x.Amount), 0, true }, 'i', 4)
			checkNumCol(t, "ratio", 4, hs, rs, page, round, func(x Rec) (float64, int64, uint64, bool) {
				if x.Ratio == nil {
					return 0, 0, 0, false
				}
				return *x.Ratio, 0, 0, true
			}, 'f', 8)
		}
	}
}

// checkNumCol recomputes the statistics of one non-repeated numeric column page by page.
func checkNumCol(t *testing.T, col string, ci int, hs interface{}, rs []Rec, page, round int, get func(Rec) (float64, int64, uint64, bool), kind byte, width int) {
	headers := reflect.ValueOf(hs)
	nPages := (len(rs) + page - 1) / page
	dec := func(b []byte) (float64, int64, uint64) {
		var u uint64
		for k := width - 1; k >= 0; k-- {
			u = u<<8 | uint64(b[k])
		}
		switch {
		case kind == 'f':
			return math.Float64frombits(u), 0, 0
		case kind == 'i' && width == 4:
			return 0, int64(int32(uint32(u))), 0
		case kind == 'i':
			return 0, int64(u), 0
		}
		return 0, 0, u
	}
	for p := 0; p < nPages; p++ {
		st := headers.Index(ci*nPages + p).FieldByName("DataPageHeader").Elem().FieldByName("Statistics").Elem()
		minB, maxB := st.FieldByName("MinValue").Bytes(), st.FieldByName("MaxValue").Bytes()
		nc := st.FieldByName("NullCount")
		var nulls int64
		entries := 0
		for i := p * page; i < (p+1)*page && i < len(rs); i++ {
			entries++
			f, sv, uv, ok := get(rs[i])
			if !ok {
				nulls++
				continue
			}
			if kind == 'f' && f != f {
				continue // NaN is outside the order
			}
			if len(minB) != width || len(maxB) != width {
				t.Errorf("REPLAY-FAIL C12 round=%d column=%s page=%d: a value is present but min/max are absent or not %d bytes", round, col, p, width)
				continue
			}
			fmin, smin, umin := dec(minB)
			fmax, smax, umax := dec(maxB)
			bad := false
			switch kind {
			case 'f':
				bad = !(fmin <= f && f <= fmax)
			case 'i':
				bad = !(smin <= sv && sv <= smax)
			default:
				bad = !(umin <= uv && uv <= umax)
			}
			if bad {
				t.Errorf("REPLAY-FAIL C12 round=%d column=%s page=%d: value (%v %d %d) outside the page bounds [% x, % x]", round, col, p, f, sv, uv, minB, maxB)
			}
		}
		if int(nulls) == entries && (len(minB) != 0 || len(maxB) != 0) {
			t.Errorf("REPLAY-FAIL C12 round=%d column=%s page=%d: no entry of the page has a value but min/max are present [% x, % x]", round, col, p, minB, maxB)
		}
		if !nc.IsNil() && nc.Elem().Int() != nulls {
			t.Errorf("REPLAY-FAIL C12 round=%d column=%s page=%d: null_count %d, %d entries without a value", round, col, p, nc.Elem().Int(), nulls)
		}
	}
}

func checkStringCol(t *testing.T, col string, hs interface{}, rs []Rec, page, round int) {
	// statistics of the optional string column "name": column index 1 in schema order
	headers := reflect.ValueOf(hs)
	nPages := (len(rs) + page - 1) / page
	base := 1 * nPages
	for p := 0; p < nPages; p++ {
		h := headers.Index(base + p)
		st := h.FieldByName("DataPageHeader").Elem().FieldByName("Statistics").Elem()
		minV, maxV := st.FieldByName("MinValue").Bytes(), st.FieldByName("MaxValue").Bytes()
		nc := st.FieldByName("NullCount")
		nulls, have := int64(0), false
		for i := p * page; i < (p+1)*page && i < len(rs); i++ {
			if rs[i].Name == nil {
				nulls++
				continue
			}
			have = true
			v := []byte(*rs[i].Name)
			if minV == nil || maxV == nil {
				t.Errorf("REPLAY-FAIL C12 round=%d column=name page=%d: value %q present but min/max absent", round, p, v)
				continue
			}
			if bytes.Compare(minV, v) > 0 || bytes.Compare(v, maxV) > 0 {
				t.Errorf("REPLAY-FAIL C12 round=%d column=name page=%d: value %q outside [min=%q, max=%q]", round, p, v, minV, maxV)
			}
		}
		if !have && (minV != nil || maxV != nil) {
			t.Errorf("REPLAY-FAIL C12 round=%d column=name page=%d: min/max present on a page without values", round, p)
		}
		if nc.IsNil() || nc.Elem().Int() != nulls {
			t.Errorf("REPLAY-FAIL C12 round=%d column=name page=%d: null_count wrong (want %d)", round, p, nulls)
		}
	}
}

// ---- C06: histories over {Add, Write} ending in Close, compared with a list-of-batches model (bounded)

func runHistory(t testing.TB, rs []Rec, hist []byte, pageSize int, codec func(*ParquetWriter) error) (file []byte, batches [][]Rec) {
	var buf bytes.Buffer
	w, err := NewParquetWriter(&buf, MaxPageSize(pageSize), codec)
	if err != nil {
		t.Fatal(err)
	}
	var pending []Rec
	i := 0
	for _, op := range hist {
		if op == 'A' {
			w.Add(rs[i])
			pending = append(pending, norm(rs[i]))
			i++
			continue
		}
		if err := w.Write(); err != nil {
			t.Fatal(err)
		}
		if len(pending) > 0 {
			batches = append(batches, pending)
			pending = nil
		}
	}
	if err := w.Close(); err != nil {
		t.Fatal(err)
	}
	return buf.Bytes(), batches
}

func checkHistory(t *testing.T, rs []Rec, hist string, pageSize int, cname string, codec func(*ParquetWriter) error) {
	defer func() {
		if r := recover(); r != nil {
			t.Errorf("REPLAY-FAIL C06 history=%s page=%d codec=%s: panic: %v", hist, pageSize, cname, r)
		}
	}()
	file, batches := runHistory(t, rs, []byte(hist), pageSize, codec)
	var want []Rec
	var total int64
	for _, b := range batches {
		want = append(want, b...)
		total += int64(len(b))
	}
	fail := func(f string, a ...interface{}) {
		t.Errorf("REPLAY-FAIL C06 history=%s page=%d codec=%s: %s", hist, pageSize, cname, fmt.Sprintf(f, a...))
	}
	footer, err := parquet.ReadMetaData(bytes.NewReader(file))
	if err != nil {
		fail("footer unreadable: %v", err)
		return
	}
	if len(footer.RowGroups) != len(batches) {
		fail("%d row groups in the footer, %d non-empty batches written", len(footer.RowGroups), len(batches))
	}
	if footer.NumRows != total {
		fail("footer NumRows=%d, rows in written batches=%d", footer.NumRows, total)
	}
	// every byte between the magic and the footer belongs to exactly one column chunk, in order
	pos := int64(4)
	for gi, rg := range footer.RowGroups {
		if gi < len(batches) && rg.NumRows != int64(len(batches[gi])) {
			fail("row group %d: NumRows=%d, batch has %d records", gi, rg.NumRows, len(batches[gi]))
		}
		for _, col := range rg.Columns {
			if col.FileOffset != pos {
				fail("row group %d column %v: FileOffset=%d, previous chunk ended at %d", gi, col.MetaData.PathInSchema, col.FileOffset, pos)
				return
			}
			// walk the pages of the chunk; a required top-level column stores one value per row
			off, end := pos, pos+col.MetaData.TotalCompressedSize
			var vals int64
			for off < end {
				if off >= int64(len(file)) {
					fail("row group %d column %v: chunk runs past the end of the file", gi, col.MetaData.PathInSchema)
					return
				}
				cr := &countReader{r: bytes.NewReader(file[off:])}
				ph, err := parquet.PageHeader(cr)
				if err != nil || ph.DataPageHeader == nil {
					fail("row group %d column %v: no page header at offset %d (%v)", gi, col.MetaData.PathInSchema, off, err)
					return
				}
				if len(col.MetaData.PathInSchema) == 1 && col.MetaData.PathInSchema[0] == "id" && int(ph.DataPageHeader.NumValues) > pageSize {
					fail("row group %d: page of %d records, page size %d", gi, ph.DataPageHeader.NumValues, pageSize)
				}
				vals += int64(ph.DataPageHeader.NumValues)
				off += int64(cr.n) + int64(ph.CompressedPageSize)
			}
			if off != end {
				fail("row group %d column %v: pages end at %d, chunk size says %d", gi, col.MetaData.PathInSchema, off, end)
				return
			}
			if len(col.MetaData.PathInSchema) == 1 && col.MetaData.PathInSchema[0] == "id" && vals != rg.NumRows {
				fail("row group %d: %d rows stored in column id, footer says %d", gi, vals, rg.NumRows)
			}
			pos = end
		}
	}
	if n := len(file); n >= 12 {
		flen := int64(file[n-8]) | int64(file[n-7])<<8 | int64(file[n-6])<<16 | int64(file[n-5])<<24
		if pos != int64(n)-8-flen {
			fail("column chunks end at byte %d, footer starts at byte %d: %d bytes on the stream the footer does not account for", pos, int64(n)-8-flen, int64(n)-8-flen-pos)
		}
	}
	got, err := readAll(bytes.NewReader(file))
	if err != nil {
		fail("read back: %v", err)
		return
	}
	if len(got) != len(want) {
		fail("%d records read back, %d written", len(got), len(want))
		return
	}
	for i := range got {
		if !reflect.DeepEqual(got[i], want[i]) {
			fail("record %d differs after the round trip", i)
			return
		}
	}
}

func TestBoundedC06(t *testing.T) {
	rs := recs(12, 11)
	cn := []string{"uncompressed", "snappy", "gzip"}
	// every history of length <= 7 for page sizes 1..3 (gzip: length <= 5)
	for ci, name := range cn {
		maxLen := 7
		if name == "gzip" {
			maxLen = 5
		}
		if thorough() {
			maxLen += 3 // every history of length <= 10 (gzip: <= 8)
		}
		for n := 0; n <= maxLen; n++ {
			for bits := 0; bits < 1<<n; bits++ {
				h := make([]byte, n)
				for k := range h {
					h[k] = 'A'
					if bits>>k&1 == 1 {
						h[k] = 'W'
					}
				}
				maxPS := 3
				if thorough() {
					maxPS = 4
				}
				for ps := 1; ps <= maxPS; ps++ {
					checkHistory(t, rs, string(h), ps, name, codecs[name])
				}
			}
		}
		_ = ci
	}
	// longer shapes: exact multiples of the page size followed by an empty Write, pending records at Close
	for _, h := range []string{"AAAAWW", "AAAAAAWWAAAW", "AAAWAAAWW", "WWAAAAAAAAAW", "AAAAAAAAAAAA", "AAAAAAAAWAAA", "AWWWAWWWAAWA"} {
		for ps := 1; ps <= 4; ps++ {
			checkHistory(t, rs, h, ps, "snappy", Snappy)
		}
	}
	// a Write with nothing pending is inert: removing it from the history gives the same bytes
	for _, h := range []string{"AAWWAAW", "WAAWAAW", "AAWAAWW", "AAAAWWAAAAW"} {
		var stripped []byte
		pend := 0
		for _, op := range []byte(h) {
			if op == 'A' {
				pend++
				stripped = append(stripped, op)
			} else if pend > 0 {
				pend = 0
				stripped = append(stripped, op)
			}
		}
		for ps := 1; ps <= 3; ps++ {
			a, _ := runHistory(t, rs, []byte(h), ps, Snappy)
			b, _ := runHistory(t, rs, stripped, ps, Snappy)
			if !bytes.Equal(a, b) {
				t.Errorf("REPLAY-FAIL C06 history=%s page=%d: the file differs from the file of the same history without its empty Write calls (%s): %d vs %d bytes", h, ps, stripped, len(a), len(b))
			}
		}
	}
}

// ---- C16: introspection calls against an independent walk of the file

func TestReplayC16(t *testing.T) {
	rs := recs(17, 16)
	for name, codec := range codecs {
		for _, ps := range []int{1, 2, 3, 5, 100} {
			for _, batches := range [][]int{{17}, {9, 8}, {4, 6, 7}} {
				file := writeFile(t, rs, ps, batches, codec)
				fail := func(f string, a ...interface{}) {
					t.Errorf("REPLAY-FAIL C16 codec=%s page=%d batches=%v: %s", name, ps, batches, fmt.Sprintf(f, a...))
				}
				footer, err := parquet.ReadMetaData(bytes.NewReader(file))
				if err != nil {
					fail("ReadMetaData: %v", err)
					continue
				}
				// independent walk: page after page from each chunk's offset to its end
				var want []sch.PageHeader
				walkOK := true
				for _, rg := range footer.RowGroups {
					for _, col := range rg.Columns {
						off := col.MetaData.DataPageOffset
						end := off + col.MetaData.TotalCompressedSize
						var chunk []sch.PageHeader
						for off < end && off < int64(len(file)) {
							cr := &countReader{r: bytes.NewReader(file[off:])}
							ph, err := parquet.PageHeader(cr)
							if err != nil {
								walkOK = false
								break
							}
							chunk = append(chunk, *ph)
							off += int64(cr.n) + int64(ph.CompressedPageSize)
						}
						want = append(want, chunk...)
						got, err := parquet.PageHeadersAtOffset(bytes.NewReader(file), col.MetaData.DataPageOffset, col.MetaData.NumValues)
						if err != nil {
							fail("PageHeadersAtOffset(%d, %d) column %v: %v (the chunk holds %d pages)", col.MetaData.DataPageOffset, col.MetaData.NumValues, col.MetaData.PathInSchema, err, len(chunk))
						} else if !reflect.DeepEqual(got, chunk) {
							fail("PageHeadersAtOffset(%d, %d) column %v: %d headers reported, %d pages in the chunk, or their contents differ", col.MetaData.DataPageOffset, col.MetaData.NumValues, col.MetaData.PathInSchema, len(got), len(chunk))
						}
					}
				}
				if !walkOK {
					continue // the file itself is not walkable: not an introspection failure
				}
				got, err := parquet.PageHeaders(footer, bytes.NewReader(file))
				if err != nil {
					fail("PageHeaders: %v (an independent walk finds %d pages)", err, len(want))
				} else if !reflect.DeepEqual(got, want) {
					fail("PageHeaders reports %d headers, an independent walk finds %d pages, or their contents differ", len(got), len(want))
				}
				// the footer handed to a listing still is what the file holds, and a
				// second listing from it reports the same pages
				if fresh, err := parquet.ReadMetaData(bytes.NewReader(file)); err != nil {
					fail("ReadMetaData (second decode): %v", err)
				} else if !reflect.DeepEqual(fresh, footer) {
					fail("footer changed by PageHeaders: it no longer equals a fresh decode of the same file")
				}
				if again, err := parquet.PageHeaders(footer, bytes.NewReader(file)); err != nil {
					fail("PageHeaders (second listing from the same footer): %v", err)
				} else if !reflect.DeepEqual(again, want) {
					fail("second PageHeaders listing from the same footer reports %d headers, an independent walk finds %d pages, or their contents differ", len(again), len(want))
				}
			}
		}
	}
}

// ---- C02: structural validity against the independent checker (bounded)

var (
	req = sch.FieldRepetitionType_REQUIRED
	opt = sch.FieldRepetitionType_OPTIONAL
	rep = sch.FieldRepetitionType_REPEATED
)

var recLeaves = []fcheck.Leaf{
	{Path: []string{"id"}, Reps: []sch.FieldRepetitionType{req}, Type: sch.Type_INT64},
	{Path: []string{"name"}, Reps: []sch.FieldRepetitionType{opt}, Type: sch.Type_BYTE_ARRAY},
	{Path: []string{"tags"}, Reps: []sch.FieldRepetitionType{rep}, Type: sch.Type_BYTE_ARRAY},
	{Path: []string{"flag"}, Reps: []sch.FieldRepetitionType{req}, Type: sch.Type_BOOLEAN},
	{Path: []string{"ratio"}, Reps: []sch.FieldRepetitionType{opt}, Type: sch.Type_DOUBLE},
	{Path: []string{"count"}, Reps: []sch.FieldRepetitionType{req}, Type: sch.Type_INT32, Conv: "UINT_32"},
	{Path: []string{"maybe"}, Reps: []sch.FieldRepetitionType{opt}, Type: sch.Type_BOOLEAN},
	{Path: []string{"items", "code"}, Reps: []sch.FieldRepetitionType{rep, req}, Type: sch.Type_BYTE_ARRAY},
	{Path: []string{"items", "score"}, Reps: []sch.FieldRepetitionType{rep, opt}, Type: sch.Type_INT32},
	{Path: []string{"amount"}, Reps: []sch.FieldRepetitionType{req}, Type: sch.Type_INT32},
}

var codecIDs = map[string]sch.CompressionCodec{"uncompressed": sch.CompressionCodec_UNCOMPRESSED, "snappy": sch.CompressionCodec_SNAPPY, "gzip": sch.CompressionCodec_GZIP}

func TestBoundedC02(t *testing.T) {
	rs := recs(40, 2)
	hists := []string{"", "W", "AW", "AAAW", "AAAAAAAW", "AAAWAAAAAWAW", "AWAWAWAW", "AAAAAAAAAAAAAAAAAAAAAAAAAAAAAAAAAAAAAAAAW", "AAAAWWAAW", "AAWAAA", "AAAAAAAAAWAAAAAAAAAAAAAAAAAAAAAAAAAAAAAW"}
	for name, codec := range codecs {
		for _, h := range hists {
			for _, ps := range []int{1, 2, 3, 4, 8, 1000} {
				func() {
					defer func() {
						if r := recover(); r != nil {
							t.Errorf("REPLAY-FAIL C02 shape=Rec history=%s page=%d codec=%s: panic: %v", h, ps, name, r)
						}
					}()
					file, batches := runHistory(t, rs, []byte(h), ps, codec)
					var bl []int
					for _, b := range batches {
						bl = append(bl, len(b))
					}
					for _, e := range fcheck.Check(file, fcheck.Expect{Leaves: recLeaves, Codec: codecIDs[name], PageSize: ps, Batches: bl}) {
						t.Errorf("REPLAY-FAIL C02 shape=Rec history=%s page=%d codec=%s: %s", h, ps, name, e)
					}
				}()
			}
		}
	}
}

// ---- C04: the reader on foreign legal encodings of the same content (bounded)

func TestBoundedC04(t *testing.T) {
	rs := recs(700, 4)
	rng := rand.New(rand.NewSource(404))
	rounds := 60
	if thorough() {
		rounds = 600
	}
	for round := 0; round < rounds; round++ {
		n := []int{1, 2, 5, 9, 17, 40, 130, 700}[round%8]
		batches := []int{n}
		if round%3 == 1 && n > 2 {
			batches = []int{n / 2, n - n/2}
		}
		cname := []string{"uncompressed", "snappy", "gzip"}[round%3]
		file := writeFile(t, rs[:n], []int{1, 3, 8, 1000}[round%4], batches, codecs[cname])
		// the rewritten file must be legal: the independent checker accepts it (page size: unbounded)
		alt, err := fcheck.Rewrite(file, recLeaves, rng, fcheck.RewriteOpts{BigRuns: n >= 600})
		if err != nil {
			t.Fatalf("rewriter: %v", err)
		}
		want := make([]Rec, n)
		for i := range want {
			want[i] = norm(rs[i])
		}
		// the re-encoded file is legal and holds the same content: the independent checker
		// accepts it, and decoding it independently gives the columns of the original
		if errs := fcheck.Check(alt, fcheck.Expect{Leaves: recLeaves, Codec: -1, PageSize: 1 << 30, Batches: batches, ForeignOffsets: true}); len(errs) > 0 {
			t.Fatalf("rewriter produced a file the independent checker rejects: %v", errs[0])
		}
		if d := fcheck.SameColumns(file, alt, recLeaves); d != "" {
			t.Fatalf("rewriter changed the content: %s", d)
		}
		func() {
			defer func() {
				if r := recover(); r != nil {
					t.Errorf("REPLAY-FAIL C04 round=%d records=%d batches=%v: reader panics on a re-encoded file: %v", round, n, batches, r)
				}
			}()
			got, err := readAll(bytes.NewReader(alt))
			if err != nil {
				t.Errorf("REPLAY-FAIL C04 round=%d records=%d batches=%v: reader fails on a re-encoded file: %v", round, n, batches, err)
				return
			}
			if len(got) != len(want) {
				t.Errorf("REPLAY-FAIL C04 round=%d records=%d batches=%v: %d records read from the re-encoded file", round, n, batches, len(got))
				return
			}
			for i := range got {
				if !reflect.DeepEqual(got[i], want[i]) {
					t.Errorf("REPLAY-FAIL C04 round=%d records=%d batches=%v: record %d differs when read from the re-encoded file (run segmentation, page splits, per-column codecs changed; same content)", round, n, batches, i)
					return
				}
			}
		}()
	}
}

// ---- C03 / C01: random records of the Rec shape (bounded)

func randomRecs(n int, seed int64) []Rec {
	rng := rand.New(rand.NewSource(seed))
	out := make([]Rec, n)
	for i := range out {
		fcheck.RandomRecord(&out[i], rng)
	}
	return out
}

func diffColumns(got, want map[string][]fcheck.Entry) string {
	for k, w := range want {
		g := got[k]
		if len(g) != len(w) {
			return fmt.Sprintf("column %s: %d entries in the file, canonical striping has %d", k, len(g), len(w))
		}
		for i := range w {
			if g[i].Rep != w[i].Rep || g[i].Def != w[i].Def || !bytes.Equal(g[i].Val, w[i].Val) {
				return fmt.Sprintf("column %s entry %d: file has (r=%d d=%d v=%x), canonical striping (r=%d d=%d v=%x)", k, i, g[i].Rep, g[i].Def, g[i].Val, w[i].Rep, w[i].Def, w[i].Val)
			}
		}
	}
	if len(got) != len(want) {
		return fmt.Sprintf("%d columns in the file, %d in the schema", len(got), len(want))
	}
	return ""
}

func TestBoundedC03(t *testing.T) {
	rounds := 24
	if thorough() {
		rounds = 480
	}
	for round := 0; round < rounds; round++ {
		n := []int{1, 2, 3, 7, 20, 60}[round%6]
		rs := randomRecs(n, int64(300+round))
		cname := []string{"uncompressed", "snappy", "gzip"}[round%3]
		ps := []int{1, 2, 5, 1000}[round%4]
		func() {
			defer func() {
				if r := recover(); r != nil {
					t.Errorf("REPLAY-FAIL C03 shape=Rec seed=%d records=%d: panic: %v", 300+round, n, r)
				}
			}()
			file := writeFile(t, rs, ps, []int{n/2 + 1, n}, codecs[cname])
			got, err := fcheck.ColumnsOf(file, recLeaves)
			if err != nil {
				t.Errorf("REPLAY-FAIL C03 shape=Rec seed=%d records=%d: columns not decodable: %v", 300+round, n, err)
				return
			}
			want := map[string][]fcheck.Entry{}
			for _, r := range rs {
				fcheck.Stripe(r, want)
			}
			if d := diffColumns(got, want); d != "" {
				t.Errorf("REPLAY-FAIL C03 shape=Rec seed=%d records=%d page=%d: %s", 300+round, n, ps, d)
			}
		}()
	}
}

func sameRec(a, b Rec) bool {
	// floats bit for bit, nil and empty slices alike
	ca, cb := map[string][]fcheck.Entry{}, map[string][]fcheck.Entry{}
	fcheck.Stripe(a, ca)
	fcheck.Stripe(b, cb)
	return diffColumns(ca, cb) == ""
}

func TestBoundedC01(t *testing.T) {
	rounds := 39
	if thorough() {
		rounds = 400
	}
	for round := 0; round < rounds; round++ {
		n := []int{0, 1, 2, 5, 9, 33, 120}[round%7]
		cname := []string{"uncompressed", "snappy", "gzip"}[round%3]
		ps := []int{1, 2, 3, 7, 1000}[round%5]
		if round >= 36 && round < 39 {
			// pages of more than 504 levels (long bit-packed runs in the level streams)
			n, ps = 1300, []int{1000, 2000, 600}[round-36]
		}
		rs := randomRecs(n, int64(100+round))
		var batches []int
		switch round % 4 {
		case 0:
			batches = []int{n}
		case 1:
			batches = []int{n / 2, n - n/2}
		case 2:
			for i := 0; i < n; i++ {
				batches = append(batches, 1)
			}
		default:
			batches = []int{1, n / 3, n}
		}
		fail := func(f string, a ...interface{}) {
			t.Errorf("REPLAY-FAIL C01 shape=Rec seed=%d records=%d page=%d codec=%s batches=%v: %s", 100+round, n, ps, cname, batches, fmt.Sprintf(f, a...))
		}
		func() {
			defer func() {
				if r := recover(); r != nil {
					fail("panic: %v", r)
				}
			}()
			var buf bytes.Buffer
			w, err := NewParquetWriter(&buf, MaxPageSize(ps), codecs[cname])
			if err != nil {
				t.Fatal(err)
			}
			i := 0
			for _, b := range batches {
				k := 0
				for ; k < b && i < n; k++ {
					x := rs[i]
					// copies of the slices the caller keeps: mutated after Add
					x.Tags = append([]string{}, rs[i].Tags...)
					x.Items = append([]Inner{}, rs[i].Items...)
					if rs[i].Name != nil {
						s := *rs[i].Name
						x.Name = &s
					}
					w.Add(x)
					for j := range x.Tags {
						x.Tags[j] = "mutated after Add"
					}
					for j := range x.Items {
						x.Items[j].Code = "mutated after Add"
						x.Items[j].Score = nil
					}
					if x.Name != nil {
						*x.Name = "mutated after Add"
					}
					i++
				}
				if k > 0 {
					if err := w.Write(); err != nil {
						t.Fatal(err)
					}
				}
			}
			if err := w.Close(); err != nil {
				t.Fatal(err)
			}
			written := rs[:i]
			pr, err := NewParquetReader(bytes.NewReader(buf.Bytes()))
			if err != nil {
				fail("NewParquetReader: %v", err)
				return
			}
			if pr.Rows() != int64(len(written)) {
				fail("Rows()=%d, %d records written", pr.Rows(), len(written))
			}
			var got []*Rec
			for pr.Next() {
				x := new(Rec)
				pr.Scan(x)
				got = append(got, x)
			}
			if pr.Error() != nil {
				fail("Error()=%v", pr.Error())
				return
			}
			if len(got) != len(written) {
				fail("Next() true %d times, %d records written", len(got), len(written))
				return
			}
			// compared only after every record was scanned: earlier results must not change
			for k := range got {
				if !sameRec(*got[k], written[k]) {
					fail("record %d differs after the round trip", k)
					return
				}
			}
		}()
	}
}
