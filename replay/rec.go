package replay

// Rec is the record type of the dynamic replay drivers: required, optional
// and repeated columns of several physical types, one nested group.
type Inner struct {
	Code  string  `parquet:"code"`
	Score *int32  `parquet:"score"`
}

type Rec struct {
	ID    int64    `parquet:"id"`
	Name  *string  `parquet:"name"`
	Tags  []string `parquet:"tags"`
	Flag  bool     `parquet:"flag"`
	Ratio *float64 `parquet:"ratio"`
	Count uint32   `parquet:"count"`
	Maybe *bool    `parquet:"maybe"`
	Items []Inner  `parquet:"items"`
	Amount int32   `parquet:"amount"`
}
