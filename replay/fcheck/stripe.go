package fcheck

// An independent implementation of Dremel record striping (bounded stand-in
// of property C03), written from the paper over Go reflection: it knows
// nothing of the generator. Fields carry `parquet:"name"` tags; a pointer is
// an optional field, a slice a repeated one, a struct a group.

import (
	"encoding/binary"
	"fmt"
	"math"
	"math/rand"
	"reflect"
	"strings"
)

// Entry is one (repetition level, definition level, value) triple of a column.
type Entry struct {
	Rep, Def int
	Val      []byte // PLAIN encoding (bool: one byte), nil for a null
}

func plain(v reflect.Value) []byte {
	switch v.Kind() {
	case reflect.Int32:
		return binary.LittleEndian.AppendUint32(nil, uint32(v.Int()))
	case reflect.Uint32:
		return binary.LittleEndian.AppendUint32(nil, uint32(v.Uint()))
	case reflect.Int64:
		return binary.LittleEndian.AppendUint64(nil, uint64(v.Int()))
	case reflect.Uint64:
		return binary.LittleEndian.AppendUint64(nil, v.Uint())
	case reflect.Float32:
		return binary.LittleEndian.AppendUint32(nil, math.Float32bits(float32(v.Float())))
	case reflect.Float64:
		return binary.LittleEndian.AppendUint64(nil, math.Float64bits(v.Float()))
	case reflect.Bool:
		if v.Bool() {
			return []byte{1}
		}
		return []byte{0}
	case reflect.String:
		return append(binary.LittleEndian.AppendUint32(nil, uint32(len(v.String()))), v.String()...)
	}
	panic("unsupported leaf kind " + v.Kind().String())
}

func tagName(f reflect.StructField) string {
	t := f.Tag.Get("parquet")
	if t == "" {
		t = strings.ToLower(f.Name)
	}
	return t
}

// Stripe appends the entries of record rec to cols (keyed by dotted path).
func Stripe(rec interface{}, cols map[string][]Entry) {
	stripeStruct(reflect.ValueOf(rec), reflect.TypeOf(rec), nil, 0, 0, 0, false, cols)
}

// stripeStruct walks the fields of a group. r is the repetition level to use
// for the next entry, d the definition level reached, depth the number of
// repeated fields on the path; null says an enclosing optional/repeated field is absent.
func stripeStruct(v reflect.Value, t reflect.Type, path []string, r, d, depth int, null bool, cols map[string][]Entry) {
	for i := 0; i < t.NumField(); i++ {
		f := t.Field(i)
		var fv reflect.Value
		if !null {
			fv = v.Field(i)
		}
		stripeField(fv, f.Type, append(append([]string{}, path...), tagName(f)), r, d, depth, null, cols)
	}
}

func stripeField(v reflect.Value, t reflect.Type, path []string, r, d, depth int, null bool, cols map[string][]Entry) {
	key := strings.Join(path, ".")
	switch t.Kind() {
	case reflect.Ptr:
		if null || v.IsNil() {
			stripeValue(reflect.Value{}, t.Elem(), path, r, d, depth, true, cols)
			return
		}
		stripeValue(v.Elem(), t.Elem(), path, r, d+1, depth, false, cols)
	case reflect.Slice:
		if null || v.Len() == 0 {
			stripeValue(reflect.Value{}, t.Elem(), path, r, d, depth+1, true, cols)
			return
		}
		for i := 0; i < v.Len(); i++ {
			ri := r
			if i > 0 {
				ri = depth + 1
			}
			stripeValue(v.Index(i), t.Elem(), path, ri, d+1, depth+1, false, cols)
		}
	default:
		stripeValue(v, t, path, r, d, depth, null, cols)
	}
	_ = key
}

func stripeValue(v reflect.Value, t reflect.Type, path []string, r, d, depth int, null bool, cols map[string][]Entry) {
	if t.Kind() == reflect.Struct {
		stripeStruct(v, t, path, r, d, depth, null, cols)
		return
	}
	key := strings.Join(path, ".")
	if null {
		cols[key] = append(cols[key], Entry{Rep: r, Def: d})
		return
	}
	cols[key] = append(cols[key], Entry{Rep: r, Def: d, Val: plain(v)})
}

// ColumnsOf decodes a library-written file into the entries of each column (all row groups concatenated).
func ColumnsOf(file []byte, leaves []Leaf) (map[string][]Entry, error) {
	n := len(file)
	flen := int(binary.LittleEndian.Uint32(file[n-8 : n-4]))
	fstart := n - 8 - flen
	fmd, err := footerOf(file)
	if err != nil {
		return nil, err
	}
	out := map[string][]Entry{}
	for _, rg := range fmd.RowGroups {
		for ci, col := range rg.Columns {
			cd, err := readChunk(file, fstart, col, leaves[ci])
			if err != nil {
				return nil, fmt.Errorf("column %v: %v", leaves[ci].Path, err)
			}
			maxDef, _ := leaves[ci].maxLevels()
			key := strings.Join(leaves[ci].Path, ".")
			vi := 0
			for k := range cd.reps {
				e := Entry{Rep: cd.reps[k]}
				def := maxDef
				if maxDef > 0 {
					def = cd.defs[k]
				}
				e.Def = def
				if def == maxDef {
					e.Val = cd.vals[vi]
					vi++
				}
				out[key] = append(out[key], e)
			}
		}
	}
	return out, nil
}

// RandomRecord fills *ptr (a pointer to a struct) with random content: pointers
// nil one time in three, slices of length 0..3, extreme and ordinary values.
func RandomRecord(ptr interface{}, rng *rand.Rand) {
	fill(reflect.ValueOf(ptr).Elem(), rng)
}

func fill(v reflect.Value, rng *rand.Rand) {
	switch v.Kind() {
	case reflect.Struct:
		for i := 0; i < v.NumField(); i++ {
			fill(v.Field(i), rng)
		}
	case reflect.Ptr:
		if rng.Intn(3) == 0 {
			v.Set(reflect.Zero(v.Type()))
			return
		}
		v.Set(reflect.New(v.Type().Elem()))
		fill(v.Elem(), rng)
	case reflect.Slice:
		n := rng.Intn(4)
		if rng.Intn(12) == 0 {
			n = 9 + rng.Intn(9)
		}
		if n == 0 {
			v.Set(reflect.Zero(v.Type()))
			return
		}
		s := reflect.MakeSlice(v.Type(), n, n)
		for i := 0; i < n; i++ {
			fill(s.Index(i), rng)
		}
		v.Set(s)
	case reflect.Int32:
		v.SetInt([]int64{0, 1, -1, math.MaxInt32, math.MinInt32, int64(rng.Int31())}[rng.Intn(6)])
	case reflect.Int64:
		v.SetInt([]int64{0, 1, -1, math.MaxInt64, math.MinInt64, rng.Int63()}[rng.Intn(6)])
	case reflect.Uint32:
		v.SetUint([]uint64{0, 1, math.MaxUint32, 1 << 31, uint64(rng.Uint32())}[rng.Intn(5)])
	case reflect.Uint64:
		v.SetUint([]uint64{0, 1, math.MaxUint64, 1 << 63, rng.Uint64()}[rng.Intn(5)])
	case reflect.Float32:
		v.SetFloat(float64([]float32{0, float32(math.Copysign(0, -1)), float32(math.Inf(1)), float32(math.Inf(-1)), math.MaxFloat32, math.SmallestNonzeroFloat32, math.Float32frombits(0x7fc00001), math.Float32frombits(0xffc12345), rng.Float32()}[rng.Intn(9)]))
	case reflect.Float64:
		v.SetFloat([]float64{0, math.Copysign(0, -1), math.Inf(1), math.Inf(-1), math.MaxFloat64, math.SmallestNonzeroFloat64, math.Float64frombits(0x7ff8000000000001), math.Float64frombits(0xfff8123456789abc), rng.Float64()}[rng.Intn(9)])
	case reflect.Bool:
		v.SetBool(rng.Intn(2) == 0)
	case reflect.String:
		v.SetString([]string{"", "a", "__#NIL#__", "\xff\xfe not utf8 \x00", "zz", strings.Repeat("long ", 40+rng.Intn(300)), fmt.Sprintf("s%d", rng.Intn(1000))}[rng.Intn(7)])
	}
}
