package fcheck

import (
	"reflect"

	sch "github.com/parsyl/parquet/schema"
)

// LeavesOf derives the expected columns (path, repetition along the path,
// physical and converted type) of a record type from the Go type alone.
func LeavesOf(rec interface{}) []Leaf {
	var out []Leaf
	leavesOf(reflect.TypeOf(rec), nil, nil, &out)
	return out
}

func leavesOf(t reflect.Type, path []string, reps []sch.FieldRepetitionType, out *[]Leaf) {
	for i := 0; i < t.NumField(); i++ {
		f := t.Field(i)
		ft := f.Type
		rep := sch.FieldRepetitionType_REQUIRED
		switch ft.Kind() {
		case reflect.Ptr:
			rep = sch.FieldRepetitionType_OPTIONAL
			ft = ft.Elem()
		case reflect.Slice:
			rep = sch.FieldRepetitionType_REPEATED
			ft = ft.Elem()
		}
		p := append(append([]string{}, path...), tagName(f))
		r := append(append([]sch.FieldRepetitionType{}, reps...), rep)
		if ft.Kind() == reflect.Struct {
			leavesOf(ft, p, r, out)
			continue
		}
		l := Leaf{Path: p, Reps: r}
		switch ft.Kind() {
		case reflect.Int32:
			l.Type = sch.Type_INT32
		case reflect.Uint32:
			l.Type, l.Conv = sch.Type_INT32, "UINT_32"
		case reflect.Int64:
			l.Type = sch.Type_INT64
		case reflect.Uint64:
			l.Type, l.Conv = sch.Type_INT64, "UINT_64"
		case reflect.Float32:
			l.Type = sch.Type_FLOAT
		case reflect.Float64:
			l.Type = sch.Type_DOUBLE
		case reflect.Bool:
			l.Type = sch.Type_BOOLEAN
		case reflect.String:
			l.Type = sch.Type_BYTE_ARRAY
		}
		*out = append(*out, l)
	}
}
