package fcheck

// Rewrite re-encodes a Parquet file written by the library into another
// legal physical encoding of the same logical content (bounded stand-in of
// property C04): level streams are re-segmented into RLE and bit-packed runs
// of arbitrary lengths (bit-packed runs of more than 63 groups, padding bits
// of the last group set to 1), pages are split independently per column at
// record boundaries, each column gets its own codec, optional thrift fields
// (statistics) are dropped or kept.

import (
	"bytes"
	"compress/gzip"
	"context"
	"encoding/binary"
	"fmt"
	"io"
	"math/rand"

	"github.com/apache/thrift/lib/go/thrift"
	"github.com/golang/snappy"
	sch "github.com/parsyl/parquet/schema"
)

type colData struct {
	reps, defs []int
	vals       [][]byte // one entry per non-null value (bool: one byte 0/1)
}

func decompress(codec sch.CompressionCodec, payload []byte) ([]byte, error) {
	switch codec {
	case sch.CompressionCodec_SNAPPY:
		return snappy.Decode(nil, payload)
	case sch.CompressionCodec_GZIP:
		zr, err := gzip.NewReader(bytes.NewReader(payload))
		if err != nil {
			return nil, err
		}
		return io.ReadAll(zr)
	}
	return payload, nil
}

func compressWith(codec sch.CompressionCodec, raw []byte) []byte {
	switch codec {
	case sch.CompressionCodec_SNAPPY:
		return snappy.Encode(nil, raw)
	case sch.CompressionCodec_GZIP:
		var b bytes.Buffer
		zw := gzip.NewWriter(&b)
		zw.Write(raw)
		zw.Close()
		return b.Bytes()
	}
	return raw
}

// readChunk decodes one column chunk of a library-written file into levels and values.
func readChunk(file []byte, fstart int, col *sch.ColumnChunk, leaf Leaf) (*colData, error) {
	md := col.MetaData
	maxDef, maxRep := leaf.maxLevels()
	out := &colData{}
	p := int(md.DataPageOffset)
	var values int64
	for values < md.NumValues {
		ph, hl, err := readHeader(file[p:fstart])
		if err != nil {
			return nil, err
		}
		raw, err := decompress(md.Codec, file[p+hl:p+hl+int(ph.CompressedPageSize)])
		if err != nil {
			return nil, err
		}
		nv := int(ph.DataPageHeader.NumValues)
		rest := raw
		nonNull := nv
		if maxRep > 0 {
			l := int(binary.LittleEndian.Uint32(rest))
			lv, err := hybrid(rest[4:4+l], bitWidth(maxRep))
			if err != nil {
				return nil, err
			}
			out.reps = append(out.reps, lv[:nv]...)
			rest = rest[4+l:]
		} else {
			out.reps = append(out.reps, make([]int, nv)...)
		}
		if maxDef > 0 {
			l := int(binary.LittleEndian.Uint32(rest))
			lv, err := hybrid(rest[4:4+l], bitWidth(maxDef))
			if err != nil {
				return nil, err
			}
			nonNull = 0
			for _, d := range lv[:nv] {
				if d == maxDef {
					nonNull++
				}
			}
			out.defs = append(out.defs, lv[:nv]...)
			rest = rest[4+l:]
		}
		for k := 0; k < nonNull; k++ {
			switch md.Type {
			case sch.Type_INT32, sch.Type_FLOAT:
				out.vals = append(out.vals, rest[:4])
				rest = rest[4:]
			case sch.Type_INT64, sch.Type_DOUBLE:
				out.vals = append(out.vals, rest[:8])
				rest = rest[8:]
			case sch.Type_BYTE_ARRAY:
				l := int(binary.LittleEndian.Uint32(rest))
				out.vals = append(out.vals, rest[:4+l])
				rest = rest[4+l:]
			case sch.Type_BOOLEAN:
				out.vals = append(out.vals, []byte{rest[k/8] >> uint(k%8) & 1})
			}
		}
		values += int64(nv)
		p += hl + int(ph.CompressedPageSize)
	}
	return out, nil
}

func uleb(n uint) []byte {
	var b []byte
	for n >= 0x80 {
		b = append(b, byte(n)|0x80)
		n >>= 7
	}
	return append(b, byte(n))
}

// encodeHybrid encodes levels with a random legal run segmentation.
func encodeHybrid(levels []int, width int, rng *rand.Rand, bigRuns bool) []byte {
	var out []byte
	i := 0
	bw := (width + 7) / 8
	for i < len(levels) {
		// length of the run of equal values starting at i
		same := 1
		for i+same < len(levels) && levels[i+same] == levels[i] {
			same++
		}
		remaining := len(levels) - i
		useRLE := rng.Intn(3) == 0 || (same >= 8 && rng.Intn(2) == 0)
		if useRLE {
			n := 1 + rng.Intn(same)
			out = append(out, uleb(uint(n)<<1)...)
			for k := 0; k < bw; k++ {
				out = append(out, byte(levels[i]>>(8*uint(k))))
			}
			i += n
			continue
		}
		// bit-packed run: a multiple of 8 values unless it is the last run
		groups := 1 + rng.Intn(3)
		if bigRuns && remaining >= 8*70 && rng.Intn(2) == 0 {
			groups = 64 + rng.Intn(remaining/8-63)
		}
		if groups*8 > remaining {
			groups = (remaining + 7) / 8
		}
		out = append(out, uleb(uint(groups)<<1|1)...)
		var acc, nbits uint
		for k := 0; k < groups*8; k++ {
			v := uint(1<<uint(width) - 1) // padding: all ones
			if i+k < len(levels) {
				v = uint(levels[i+k])
			}
			acc |= v << nbits
			nbits += uint(width)
			for nbits >= 8 {
				out = append(out, byte(acc))
				acc >>= 8
				nbits -= 8
			}
		}
		i += groups * 8
	}
	return out
}

type RewriteOpts struct {
	OneCodec *sch.CompressionCodec // nil: a random codec per column
	BigRuns  bool
}

// Rewrite returns a different physical encoding of the same content.
func Rewrite(file []byte, leaves []Leaf, rng *rand.Rand, o RewriteOpts) ([]byte, error) {
	n := len(file)
	flen := int(binary.LittleEndian.Uint32(file[n-8 : n-4]))
	fstart := n - 8 - flen
	fmd := &sch.FileMetaData{}
	if err := fmd.Read(context.TODO(), thrift.NewTCompactProtocol(&thrift.StreamTransport{Reader: bytes.NewReader(file[fstart : n-8])})); err != nil {
		return nil, err
	}
	ser := thrift.NewTSerializer()
	ser.Protocol = thrift.NewTCompactProtocolFactory().GetProtocol(ser.Transport)
	out := []byte("PAR1")
	nf := &sch.FileMetaData{Version: fmd.Version, Schema: fmd.Schema, NumRows: fmd.NumRows}
	if rng.Intn(2) == 0 {
		s := "fcheck rewriter"
		nf.CreatedBy = &s
	}
	for _, rg := range fmd.RowGroups {
		nrg := &sch.RowGroup{NumRows: rg.NumRows}
		for ci, col := range rg.Columns {
			leaf := leaves[ci]
			cd, err := readChunk(file, fstart, col, leaf)
			if err != nil {
				return nil, fmt.Errorf("column %v: %v", leaf.Path, err)
			}
			maxDef, maxRep := leaf.maxLevels()
			codec := sch.CompressionCodec(rng.Intn(3))
			if o.OneCodec != nil {
				codec = *o.OneCodec
			}
			// record boundaries
			var starts []int
			for i, r := range cd.reps {
				if r == 0 {
					starts = append(starts, i)
				}
			}
			starts = append(starts, len(cd.reps))
			nmd := &sch.ColumnMetaData{Type: col.MetaData.Type, Encodings: col.MetaData.Encodings, PathInSchema: col.MetaData.PathInSchema, Codec: codec, DataPageOffset: int64(len(out))}
			chunkStart := len(out)
			vi := 0
			for s := 0; s < len(starts)-1; {
				// a page of 1..all remaining records
				e := s + 1 + rng.Intn(len(starts)-1-s)
				if rng.Intn(3) == 0 {
					e = len(starts) - 1
				}
				lo, hi := starts[s], starts[e]
				var raw []byte
				if maxRep > 0 {
					enc := encodeHybrid(cd.reps[lo:hi], bitWidth(maxRep), rng, o.BigRuns)
					raw = binary.LittleEndian.AppendUint32(raw, uint32(len(enc)))
					raw = append(raw, enc...)
				}
				nonNull := hi - lo
				if maxDef > 0 {
					enc := encodeHybrid(cd.defs[lo:hi], bitWidth(maxDef), rng, o.BigRuns)
					raw = binary.LittleEndian.AppendUint32(raw, uint32(len(enc)))
					raw = append(raw, enc...)
					nonNull = 0
					for _, d := range cd.defs[lo:hi] {
						if d == maxDef {
							nonNull++
						}
					}
				}
				if col.MetaData.Type == sch.Type_BOOLEAN {
					bits := make([]byte, (nonNull+7)/8)
					for k := 0; k < nonNull; k++ {
						bits[k/8] |= cd.vals[vi+k][0] << uint(k%8)
					}
					raw = append(raw, bits...)
				} else {
					for k := 0; k < nonNull; k++ {
						raw = append(raw, cd.vals[vi+k]...)
					}
				}
				vi += nonNull
				payload := compressWith(codec, raw)
				ph := &sch.PageHeader{Type: sch.PageType_DATA_PAGE, UncompressedPageSize: int32(len(raw)), CompressedPageSize: int32(len(payload)),
					DataPageHeader: &sch.DataPageHeader{NumValues: int32(hi - lo), Encoding: sch.Encoding_PLAIN, DefinitionLevelEncoding: sch.Encoding_RLE, RepetitionLevelEncoding: sch.Encoding_RLE}}
				if rng.Intn(2) == 0 {
					nc := int64(hi - lo - nonNull)
					ph.DataPageHeader.Statistics = &sch.Statistics{NullCount: &nc}
				}
				hb, err := ser.Write(context.TODO(), ph)
				if err != nil {
					return nil, err
				}
				out = append(out, hb...)
				out = append(out, payload...)
				nmd.NumValues += int64(hi - lo)
				nmd.TotalUncompressedSize += int64(len(hb) + len(raw))
				s = e
			}
			nmd.TotalCompressedSize = int64(len(out) - chunkStart)
			// file_offset is a legal choice of the writer too: the first page (this library), 0
			// (current parquet-format: deprecated, writers should store 0) or the position after
			// the chunk (older writers put the column metadata there)
			fo := int64(chunkStart)
			switch rng.Intn(3) {
			case 1:
				fo = 0
			case 2:
				fo = int64(len(out))
			}
			nrg.Columns = append(nrg.Columns, &sch.ColumnChunk{FileOffset: fo, MetaData: nmd})
			nrg.TotalByteSize += nmd.TotalCompressedSize
		}
		nf.RowGroups = append(nf.RowGroups, nrg)
	}
	fb, err := ser.Write(context.TODO(), nf)
	if err != nil {
		return nil, err
	}
	out = append(out, fb...)
	out = binary.LittleEndian.AppendUint32(out, uint32(len(fb)))
	return append(out, "PAR1"...), nil
}

func footerOf(file []byte) (*sch.FileMetaData, error) {
	n := len(file)
	flen := int(binary.LittleEndian.Uint32(file[n-8 : n-4]))
	fstart := n - 8 - flen
	fmd := &sch.FileMetaData{}
	err := fmd.Read(context.TODO(), thrift.NewTCompactProtocol(&thrift.StreamTransport{Reader: bytes.NewReader(file[fstart : n-8])}))
	return fmd, err
}

// SameColumns decodes both files independently and compares levels and values of every column chunk.
func SameColumns(a, b []byte, leaves []Leaf) string {
	dec := func(file []byte) ([][]*colData, error) {
		n := len(file)
		flen := int(binary.LittleEndian.Uint32(file[n-8 : n-4]))
		fstart := n - 8 - flen
		fmd := &sch.FileMetaData{}
		if err := fmd.Read(context.TODO(), thrift.NewTCompactProtocol(&thrift.StreamTransport{Reader: bytes.NewReader(file[fstart : n-8])})); err != nil {
			return nil, err
		}
		var out [][]*colData
		for _, rg := range fmd.RowGroups {
			var cs []*colData
			for ci, col := range rg.Columns {
				cd, err := readChunk(file, fstart, col, leaves[ci])
				if err != nil {
					return nil, err
				}
				cs = append(cs, cd)
			}
			out = append(out, cs)
		}
		return out, nil
	}
	x, err := dec(a)
	if err != nil {
		return "original: " + err.Error()
	}
	y, err := dec(b)
	if err != nil {
		return "rewritten: " + err.Error()
	}
	if len(x) != len(y) {
		return "row group count differs"
	}
	for g := range x {
		for c := range x[g] {
			if fmt.Sprint(x[g][c].reps) != fmt.Sprint(y[g][c].reps) || fmt.Sprint(x[g][c].defs) != fmt.Sprint(y[g][c].defs) || fmt.Sprint(x[g][c].vals) != fmt.Sprint(y[g][c].vals) {
				return fmt.Sprintf("row group %d column %v differs", g, leaves[c].Path)
			}
		}
	}
	return ""
}
