// Package fcheck is an independent structural checker for the Parquet files
// the generated writer produces (bounded stand-in of property C02): it
// parses the footer with the thrift-generated decoder and then walks the
// file on its own — schema tree by num_children, column chunks by offset and
// size, pages by header, level sections with its own RLE/bit-packing hybrid
// decoder, value sections by physical type.
package fcheck

import (
	"bytes"
	"compress/gzip"
	"context"
	"encoding/binary"
	"fmt"
	"io"
	"strings"

	"github.com/apache/thrift/lib/go/thrift"
	"github.com/golang/snappy"
	sch "github.com/parsyl/parquet/schema"
)

// Leaf describes one expected column: its path, the repetition of every node
// on the path (groups, then the leaf) and its physical type.
type Leaf struct {
	Path []string
	Reps []sch.FieldRepetitionType
	Type sch.Type
	Conv string // converted type ("" = none)
}

type Expect struct {
	Leaves   []Leaf
	Codec    sch.CompressionCodec
	PageSize int
	Batches  []int // records per non-empty written batch
	// ForeignOffsets: ColumnChunk.file_offset is not checked (writers disagree about it: the
	// chunk's first page, 0, or the position after the chunk); data_page_offset still is
	ForeignOffsets bool
}

func (l Leaf) maxLevels() (def, rep int) {
	for _, r := range l.Reps {
		if r != sch.FieldRepetitionType_REQUIRED {
			def++
		}
		if r == sch.FieldRepetitionType_REPEATED {
			rep++
		}
	}
	return
}

type countReader struct {
	r io.Reader
	n int
}

func (c *countReader) Read(p []byte) (int, error) {
	n, err := c.r.Read(p)
	c.n += n
	return n, err
}

func bitWidth(max int) int {
	w := 0
	for max > 0 {
		w++
		max >>= 1
	}
	return w
}

// hybrid decodes an RLE/bit-packing hybrid stream of the given bit width completely.
func hybrid(b []byte, width int) ([]int, error) {
	var out []int
	i := 0
	for i < len(b) {
		var h, shift uint
		for {
			if i >= len(b) {
				return nil, fmt.Errorf("truncated run header")
			}
			c := b[i]
			i++
			h |= uint(c&0x7f) << shift
			shift += 7
			if c&0x80 == 0 {
				break
			}
		}
		if h&1 == 1 {
			groups := int(h >> 1)
			need := groups * width
			if i+need > len(b) {
				return nil, fmt.Errorf("bit-packed run of %d groups runs past the section", groups)
			}
			var acc, nbits uint
			p := i
			for k := 0; k < groups*8; k++ {
				for nbits < uint(width) {
					acc |= uint(b[p]) << nbits
					p++
					nbits += 8
				}
				out = append(out, int(acc&(1<<uint(width)-1)))
				acc >>= uint(width)
				nbits -= uint(width)
			}
			i += need
		} else {
			n := int(h >> 1)
			bw := (width + 7) / 8
			if i+bw > len(b) {
				return nil, fmt.Errorf("repeated run without value")
			}
			v := 0
			for k := 0; k < bw; k++ {
				v |= int(b[i+k]) << (8 * uint(k))
			}
			i += bw
			for k := 0; k < n; k++ {
				out = append(out, v)
			}
		}
	}
	return out, nil
}

func readHeader(b []byte) (*sch.PageHeader, int, error) {
	cr := &countReader{r: bytes.NewReader(b)}
	p := thrift.NewTCompactProtocol(&thrift.StreamTransport{Reader: cr})
	ph := &sch.PageHeader{}
	if err := ph.Read(context.TODO(), p); err != nil {
		return nil, 0, err
	}
	return ph, cr.n, nil
}

// Check returns one message per disagreement between the file and exp.
func Check(file []byte, exp Expect) (errs []string) {
	bad := func(f string, a ...interface{}) { errs = append(errs, fmt.Sprintf(f, a...)) }
	n := len(file)
	if n < 12 || string(file[:4]) != "PAR1" || string(file[n-4:]) != "PAR1" {
		bad("magic bytes missing at the start or the end")
		return
	}
	flen := int(binary.LittleEndian.Uint32(file[n-8 : n-4]))
	fstart := n - 8 - flen
	if fstart < 4 {
		bad("footer length %d does not fit the file of %d bytes", flen, n)
		return
	}
	cr := &countReader{r: bytes.NewReader(file[fstart : n-8])}
	fmd := &sch.FileMetaData{}
	if err := fmd.Read(context.TODO(), thrift.NewTCompactProtocol(&thrift.StreamTransport{Reader: cr})); err != nil {
		bad("footer does not decode: %v", err)
		return
	}
	if cr.n != flen {
		bad("footer length word says %d bytes, the footer structure occupies %d", flen, cr.n)
	}

	// ---- schema tree: pre-order walk by num_children
	type leafSeen struct {
		path []string
		reps []sch.FieldRepetitionType
		el   *sch.SchemaElement
	}
	var leaves []leafSeen
	pos := 1
	var walk func(parent *sch.SchemaElement, path []string, reps []sch.FieldRepetitionType) bool
	walk = func(parent *sch.SchemaElement, path []string, reps []sch.FieldRepetitionType) bool {
		if parent.NumChildren == nil {
			bad("schema: group %q has no num_children", strings.Join(path, "."))
			return false
		}
		for c := 0; c < int(*parent.NumChildren); c++ {
			if pos >= len(fmd.Schema) {
				bad("schema: group %q announces %d children, the element list ends after %d of them", strings.Join(path, "."), *parent.NumChildren, c)
				return false
			}
			el := fmd.Schema[pos]
			pos++
			if el.RepetitionType == nil {
				bad("schema: element %q has no repetition type", el.Name)
				return false
			}
			p := append(append([]string{}, path...), el.Name)
			r := append(append([]sch.FieldRepetitionType{}, reps...), *el.RepetitionType)
			if el.Type == nil {
				if !walk(el, p, r) {
					return false
				}
			} else {
				if el.NumChildren != nil && *el.NumChildren != 0 {
					bad("schema: leaf %q has num_children %d", strings.Join(p, "."), *el.NumChildren)
				}
				leaves = append(leaves, leafSeen{p, r, el})
			}
		}
		return true
	}
	if len(fmd.Schema) == 0 {
		bad("schema: empty")
		return
	}
	if walk(fmd.Schema[0], nil, nil) && pos != len(fmd.Schema) {
		bad("schema: the tree rooted at element 0 covers %d of %d elements (num_children wrong)", pos, len(fmd.Schema))
	}
	if len(leaves) != len(exp.Leaves) {
		bad("schema: %d leaves reached by the tree walk, %d columns expected", len(leaves), len(exp.Leaves))
	}
	for i := 0; i < len(leaves) && i < len(exp.Leaves); i++ {
		if strings.Join(leaves[i].path, ".") != strings.Join(exp.Leaves[i].Path, ".") {
			bad("schema: leaf %d is %q in the tree, column %q expected", i, strings.Join(leaves[i].path, "."), strings.Join(exp.Leaves[i].Path, "."))
			continue
		}
		if *leaves[i].el.Type != exp.Leaves[i].Type {
			bad("schema: leaf %q has type %v, expected %v", strings.Join(leaves[i].path, "."), *leaves[i].el.Type, exp.Leaves[i].Type)
		}
		if fmt.Sprint(leaves[i].reps) != fmt.Sprint(exp.Leaves[i].Reps) {
			bad("schema: leaf %q has repetition %v along its path, expected %v", strings.Join(leaves[i].path, "."), leaves[i].reps, exp.Leaves[i].Reps)
		}
		conv := ""
		if leaves[i].el.ConvertedType != nil {
			conv = leaves[i].el.ConvertedType.String()
		}
		if conv != exp.Leaves[i].Conv {
			bad("schema: leaf %q has converted type %q, expected %q", strings.Join(leaves[i].path, "."), conv, exp.Leaves[i].Conv)
		}
	}

	// ---- row groups, chunks, pages
	if len(fmd.RowGroups) != len(exp.Batches) {
		bad("%d row groups, %d non-empty batches written", len(fmd.RowGroups), len(exp.Batches))
	}
	var total int64
	off := int64(4)
	for gi, rg := range fmd.RowGroups {
		total += rg.NumRows
		if gi < len(exp.Batches) && rg.NumRows != int64(exp.Batches[gi]) {
			bad("row group %d: num_rows %d, batch has %d records", gi, rg.NumRows, exp.Batches[gi])
		}
		if len(rg.Columns) != len(exp.Leaves) {
			bad("row group %d: %d column chunks, %d columns in the schema", gi, len(rg.Columns), len(exp.Leaves))
		}
		for ci, col := range rg.Columns {
			md := col.MetaData
			if md == nil {
				bad("row group %d chunk %d: no metadata", gi, ci)
				return
			}
			name := strings.Join(md.PathInSchema, ".")
			if ci >= len(exp.Leaves) {
				break
			}
			leaf := exp.Leaves[ci]
			if name != strings.Join(leaf.Path, ".") {
				bad("row group %d chunk %d is column %q, schema order says %q", gi, ci, name, strings.Join(leaf.Path, "."))
				continue
			}
			if md.Type != leaf.Type {
				bad("row group %d column %s: chunk type %v, schema type %v", gi, name, md.Type, leaf.Type)
			}
			if exp.Codec >= 0 && md.Codec != exp.Codec {
				bad("row group %d column %s: codec %v recorded, %v configured", gi, name, md.Codec, exp.Codec)
			}
			if (col.FileOffset != off && !exp.ForeignOffsets) || md.DataPageOffset != off {
				bad("row group %d column %s: file_offset %d / data_page_offset %d, the previous chunk ends at %d", gi, name, col.FileOffset, md.DataPageOffset, off)
				return
			}
			maxDef, maxRep := leaf.maxLevels()
			var comp, uncomp, values, records int64
			p := off
			for values < md.NumValues {
				if p >= int64(fstart) {
					bad("row group %d column %s: pages run into the footer", gi, name)
					return
				}
				ph, hl, err := readHeader(file[p:fstart])
				if err != nil || ph.DataPageHeader == nil || ph.Type != sch.PageType_DATA_PAGE {
					bad("row group %d column %s: no data page header at offset %d (%v)", gi, name, p, err)
					return
				}
				dp := ph.DataPageHeader
				end := p + int64(hl) + int64(ph.CompressedPageSize)
				if end > int64(fstart) || ph.CompressedPageSize < 0 {
					bad("row group %d column %s: page at %d claims %d payload bytes, past the footer", gi, name, p, ph.CompressedPageSize)
					return
				}
				payload := file[p+int64(hl) : end]
				var raw []byte
				switch md.Codec {
				case sch.CompressionCodec_SNAPPY:
					raw, err = snappy.Decode(nil, payload)
				case sch.CompressionCodec_GZIP:
					var zr *gzip.Reader
					if zr, err = gzip.NewReader(bytes.NewReader(payload)); err == nil {
						raw, err = io.ReadAll(zr)
					}
				default:
					raw = payload
				}
				if err != nil {
					bad("row group %d column %s page at %d: payload does not decompress with %v: %v", gi, name, p, md.Codec, err)
					return
				}
				if len(raw) != int(ph.UncompressedPageSize) {
					bad("row group %d column %s page at %d: uncompressed_page_size %d, the payload decompresses to %d bytes", gi, name, p, ph.UncompressedPageSize, len(raw))
				}
				if dp.Encoding != sch.Encoding_PLAIN || (maxDef > 0 && dp.DefinitionLevelEncoding != sch.Encoding_RLE) || (maxRep > 0 && dp.RepetitionLevelEncoding != sch.Encoding_RLE) {
					bad("row group %d column %s page at %d: encodings %v/%v/%v", gi, name, p, dp.Encoding, dp.DefinitionLevelEncoding, dp.RepetitionLevelEncoding)
				}
				// level sections
				rest := raw
				section := func(what string, max int) ([]int, bool) {
					if len(rest) < 4 {
						bad("row group %d column %s page at %d: no %s level section", gi, name, p, what)
						return nil, false
					}
					l := int(binary.LittleEndian.Uint32(rest))
					if l < 0 || 4+l > len(rest) {
						bad("row group %d column %s page at %d: %s level section of %d bytes exceeds the page", gi, name, p, what, l)
						return nil, false
					}
					lv, err := hybrid(rest[4:4+l], bitWidth(max))
					rest = rest[4+l:]
					if err != nil {
						bad("row group %d column %s page at %d: %s levels: %v", gi, name, p, what, err)
						return nil, false
					}
					if len(lv) < int(dp.NumValues) {
						bad("row group %d column %s page at %d: %d %s levels stored, num_values %d", gi, name, p, len(lv), what, dp.NumValues)
						return nil, false
					}
					for _, x := range lv[dp.NumValues:] {
						if x != 0 && what == "repetition" {
							// padding of the last bit-packed group is arbitrary but must not be read as data
						}
					}
					lv = lv[:dp.NumValues]
					for _, x := range lv {
						if x > max {
							bad("row group %d column %s page at %d: %s level %d above the maximum %d", gi, name, p, what, x, max)
							return nil, false
						}
					}
					return lv, true
				}
				nonNull := int(dp.NumValues)
				recs := int(dp.NumValues)
				if maxRep > 0 {
					reps, ok := section("repetition", maxRep)
					if !ok {
						return
					}
					recs = 0
					for _, r := range reps {
						if r == 0 {
							recs++
						}
					}
					if len(reps) > 0 && reps[0] != 0 {
						bad("row group %d column %s page at %d: the page does not start at a record boundary (first repetition level %d)", gi, name, p, reps[0])
					}
				}
				if maxDef > 0 {
					defs, ok := section("definition", maxDef)
					if !ok {
						return
					}
					nonNull = 0
					for _, d := range defs {
						if d == maxDef {
							nonNull++
						}
					}
				}
				if recs > exp.PageSize {
					bad("row group %d column %s page at %d: %d records in the page, page size %d", gi, name, p, recs, exp.PageSize)
				}
				// value section
				switch md.Type {
				case sch.Type_INT32, sch.Type_FLOAT:
					if len(rest) != 4*nonNull {
						bad("row group %d column %s page at %d: value section of %d bytes, %d values of 4 bytes implied", gi, name, p, len(rest), nonNull)
					}
				case sch.Type_INT64, sch.Type_DOUBLE:
					if len(rest) != 8*nonNull {
						bad("row group %d column %s page at %d: value section of %d bytes, %d values of 8 bytes implied", gi, name, p, len(rest), nonNull)
					}
				case sch.Type_BOOLEAN:
					if len(rest) != (nonNull+7)/8 {
						bad("row group %d column %s page at %d: value section of %d bytes, %d booleans implied", gi, name, p, len(rest), nonNull)
					}
				case sch.Type_BYTE_ARRAY:
					k := 0
					q := rest
					for len(q) >= 4 {
						l := int(binary.LittleEndian.Uint32(q))
						if 4+l > len(q) {
							break
						}
						q = q[4+l:]
						k++
					}
					if len(q) != 0 || k != nonNull {
						bad("row group %d column %s page at %d: value section holds %d strings and %d stray bytes, %d values implied", gi, name, p, k, len(q), nonNull)
					}
				}
				comp += int64(hl) + int64(ph.CompressedPageSize)
				uncomp += int64(hl) + int64(ph.UncompressedPageSize)
				values += int64(dp.NumValues)
				records += int64(recs)
				p = end
			}
			if values != md.NumValues {
				bad("row group %d column %s: pages hold %d values, chunk says %d", gi, name, values, md.NumValues)
			}
			if comp != md.TotalCompressedSize {
				bad("row group %d column %s: pages occupy %d bytes, total_compressed_size %d", gi, name, comp, md.TotalCompressedSize)
				return
			}
			if uncomp != md.TotalUncompressedSize {
				bad("row group %d column %s: headers+uncompressed pages are %d bytes, total_uncompressed_size %d", gi, name, uncomp, md.TotalUncompressedSize)
			}
			if records != rg.NumRows {
				bad("row group %d column %s: %d records stored, num_rows %d", gi, name, records, rg.NumRows)
			}
			off += md.TotalCompressedSize
		}
	}
	if total != fmd.NumRows {
		bad("footer num_rows %d, row groups hold %d", fmd.NumRows, total)
	}
	if off != int64(fstart) {
		bad("column chunks end at byte %d, the footer starts at byte %d", off, fstart)
	}
	return
}
