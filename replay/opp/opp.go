package opp

// OPP: an optional group above two nested lists — the struct shape of known
// finding D10 (the generated assembly function mishandles "group present,
// outer list element present, inner list empty" at the start of a record).
type In struct {
	L []int32 `parquet:"l"`
}

type Own struct {
	LL []In  `parquet:"ll"`
	N  int32 `parquet:"n"`
}

type OPP struct {
	ID  int64 `parquet:"id"`
	Own *Own  `parquet:"own"`
}
