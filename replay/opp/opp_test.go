package opp

import (
	"bytes"
	"fmt"
	"math/rand"
	"testing"

	"replay/fcheck"
)

// Round trip for the shape of known finding D10. Every failing input is
// reported with shape=OPP so that the check can tell it from other failures.
func TestBoundedC01(t *testing.T) {
	rng := rand.New(rand.NewSource(10))
	for round := 0; round < 40; round++ {
		n := 1 + round%5
		rs := make([]OPP, n)
		for i := range rs {
			fcheck.RandomRecord(&rs[i], rng)
		}
		func() {
			defer func() {
				if r := recover(); r != nil {
					t.Errorf("REPLAY-FAIL C01 shape=OPP round=%d records=%d: panic while reading back: %v", round, n, r)
				}
			}()
			var buf bytes.Buffer
			w, err := NewParquetWriter(&buf, MaxPageSize(3))
			if err != nil {
				t.Fatal(err)
			}
			for _, r := range rs {
				w.Add(r)
			}
			if err := w.Write(); err != nil {
				t.Fatal(err)
			}
			if err := w.Close(); err != nil {
				t.Fatal(err)
			}
			pr, err := NewParquetReader(bytes.NewReader(buf.Bytes()))
			if err != nil {
				t.Errorf("REPLAY-FAIL C01 shape=OPP round=%d records=%d: %v", round, n, err)
				return
			}
			i := 0
			for pr.Next() {
				var x OPP
				pr.Scan(&x)
				a, b := map[string][]fcheck.Entry{}, map[string][]fcheck.Entry{}
				fcheck.Stripe(x, a)
				if i < n {
					fcheck.Stripe(rs[i], b)
				}
				if fmt.Sprint(a) != fmt.Sprint(b) {
					t.Errorf("REPLAY-FAIL C01 shape=OPP round=%d records=%d: record %d differs after the round trip", round, n, i)
					return
				}
				i++
			}
			if i != n || pr.Error() != nil {
				t.Errorf("REPLAY-FAIL C01 shape=OPP round=%d records=%d: %d records read, Error()=%v", round, n, i, pr.Error())
			}
		}()
	}
}
