package deep

// Deep: groups nested three levels, the group name "inner" under two
// different parents, a repeated group inside a repeated group (the shape of
// the Dremel paper's Document), leaves before and after groups.
type Lang struct {
	Code    string  `parquet:"code"`
	Country *string `parquet:"country"`
}

type Name struct {
	Languages []Lang  `parquet:"languages"`
	URL       *string `parquet:"url"`
}

type Links struct {
	Backward []int64 `parquet:"backward"`
	Forward  []int64 `parquet:"forward"`
}

type InA struct {
	X int32 `parquet:"x"`
}

type InB struct {
	X *float32 `parquet:"x"`
	Y bool     `parquet:"y"`
}

type SideA struct {
	Inner InA `parquet:"inner"`
}

type SideB struct {
	Inner *InB `parquet:"inner"`
}

type Deep struct {
	DocID int64  `parquet:"docid"`
	Links *Links `parquet:"links"`
	Names []Name `parquet:"names"`
	A     SideA  `parquet:"a"`
	B     *SideB `parquet:"b"`
	Tail  string `parquet:"tail"`
}
