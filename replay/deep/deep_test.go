package deep

import (
	"bytes"
	"fmt"
	"testing"

	sch "github.com/parsyl/parquet/schema"
	"replay/fcheck"
)

func sp(s string) *string    { return &s }
func f32(f float32) *float32 { return &f }

func deeps(n int) []Deep {
	out := make([]Deep, n)
	for i := range out {
		d := Deep{DocID: int64(10 * i), Tail: fmt.Sprintf("tail-%d", i), A: SideA{Inner: InA{X: int32(i)}}}
		if i%3 != 2 {
			d.Links = &Links{}
			for j := 0; j < i%4; j++ {
				d.Links.Forward = append(d.Links.Forward, int64(20*i+j))
			}
			if i%2 == 0 {
				d.Links.Backward = []int64{int64(i), int64(i + 1)}
			}
		}
		for j := 0; j < (i+1)%4; j++ {
			nm := Name{}
			for k := 0; k < (i+j)%3; k++ {
				l := Lang{Code: fmt.Sprintf("c%d%d%d", i, j, k)}
				if k%2 == 0 {
					l.Country = sp("gb")
				}
				nm.Languages = append(nm.Languages, l)
			}
			if j%2 == 1 {
				nm.URL = sp(fmt.Sprintf("http://%d/%d", i, j))
			}
			d.Names = append(d.Names, nm)
		}
		switch i % 4 {
		case 1:
			d.B = &SideB{}
		case 2:
			d.B = &SideB{Inner: &InB{Y: true}}
		case 3:
			d.B = &SideB{Inner: &InB{X: f32(float32(i) / 2), Y: i%8 == 3}}
		}
		out[i] = d
	}
	return out
}

var (
	req = sch.FieldRepetitionType_REQUIRED
	opt = sch.FieldRepetitionType_OPTIONAL
	rep = sch.FieldRepetitionType_REPEATED
)

var deepLeaves = []fcheck.Leaf{
	{Path: []string{"docid"}, Reps: []sch.FieldRepetitionType{req}, Type: sch.Type_INT64},
	{Path: []string{"links", "backward"}, Reps: []sch.FieldRepetitionType{opt, rep}, Type: sch.Type_INT64},
	{Path: []string{"links", "forward"}, Reps: []sch.FieldRepetitionType{opt, rep}, Type: sch.Type_INT64},
	{Path: []string{"names", "languages", "code"}, Reps: []sch.FieldRepetitionType{rep, rep, req}, Type: sch.Type_BYTE_ARRAY},
	{Path: []string{"names", "languages", "country"}, Reps: []sch.FieldRepetitionType{rep, rep, opt}, Type: sch.Type_BYTE_ARRAY},
	{Path: []string{"names", "url"}, Reps: []sch.FieldRepetitionType{rep, opt}, Type: sch.Type_BYTE_ARRAY},
	{Path: []string{"a", "inner", "x"}, Reps: []sch.FieldRepetitionType{req, req, req}, Type: sch.Type_INT32},
	{Path: []string{"b", "inner", "x"}, Reps: []sch.FieldRepetitionType{opt, opt, opt}, Type: sch.Type_FLOAT},
	{Path: []string{"b", "inner", "y"}, Reps: []sch.FieldRepetitionType{opt, opt, req}, Type: sch.Type_BOOLEAN},
	{Path: []string{"tail"}, Reps: []sch.FieldRepetitionType{req}, Type: sch.Type_BYTE_ARRAY},
}

func TestBoundedC02(t *testing.T) {
	ds := deeps(30)
	codecs := map[string]func(*ParquetWriter) error{"uncompressed": Uncompressed, "snappy": Snappy, "gzip": Gzip}
	ids := map[string]sch.CompressionCodec{"uncompressed": sch.CompressionCodec_UNCOMPRESSED, "snappy": sch.CompressionCodec_SNAPPY, "gzip": sch.CompressionCodec_GZIP}
	for name, codec := range codecs {
		for _, batches := range [][]int{{}, {1}, {5}, {30}, {7, 1, 9}, {4, 4, 4, 4, 4}} {
			for _, ps := range []int{1, 2, 3, 5, 1000} {
				func() {
					defer func() {
						if r := recover(); r != nil {
							t.Errorf("REPLAY-FAIL C02 shape=Deep batches=%v page=%d codec=%s: panic: %v", batches, ps, name, r)
						}
					}()
					var buf bytes.Buffer
					w, err := NewParquetWriter(&buf, MaxPageSize(ps), codec)
					if err != nil {
						t.Fatal(err)
					}
					i := 0
					for _, b := range batches {
						for j := 0; j < b; j++ {
							w.Add(ds[i])
							i++
						}
						if err := w.Write(); err != nil {
							t.Fatal(err)
						}
					}
					if err := w.Close(); err != nil {
						t.Fatal(err)
					}
					for _, e := range fcheck.Check(buf.Bytes(), fcheck.Expect{Leaves: deepLeaves, Codec: ids[name], PageSize: ps, Batches: batches}) {
						t.Errorf("REPLAY-FAIL C02 shape=Deep batches=%v page=%d codec=%s: %s", batches, ps, name, e)
					}
				}()
			}
		}
	}
}
