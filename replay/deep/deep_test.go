package deep

import (
	"bytes"
	"fmt"
	"math/rand"
	"os"
	"testing"

	sch "github.com/parsyl/parquet/schema"
	"replay/fcheck"
)

func sp(s string) *string    { return &s }
func f32(f float32) *float32 { return &f }

func deeps(n int) []Deep {
	out := make([]Deep, n)
	for i := range out {
		d := Deep{DocID: int64(10 * i), Tail: fmt.Sprintf("tail-%d", i), A: SideA{Inner: InA{X: int32(i)}}}
		if i%3 != 2 {
			d.Links = &Links{}
			for j := 0; j < i%4; j++ {
				d.Links.Forward = append(d.Links.Forward, int64(20*i+j))
			}
			if i%2 == 0 {
				d.Links.Backward = []int64{int64(i), int64(i + 1)}
			}
		}
		for j := 0; j < (i+1)%4; j++ {
			nm := Name{}
			for k := 0; k < (i+j)%3; k++ {
				l := Lang{Code: fmt.Sprintf("c%d%d%d", i, j, k)}
				if k%2 == 0 {
					l.Country = sp("gb")
				}
				nm.Languages = append(nm.Languages, l)
			}
			if j%2 == 1 {
				nm.URL = sp(fmt.Sprintf("http://%d/%d", i, j))
			}
			d.Names = append(d.Names, nm)
		}
		switch i % 4 {
		case 1:
			d.B = &SideB{}
		case 2:
			d.B = &SideB{Inner: &InB{Y: true}}
		case 3:
			d.B = &SideB{Inner: &InB{X: f32(float32(i) / 2), Y: i%8 == 3}}
		}
		out[i] = d
	}
	return out
}

var (
	req = sch.FieldRepetitionType_REQUIRED
	opt = sch.FieldRepetitionType_OPTIONAL
	rep = sch.FieldRepetitionType_REPEATED
)

var deepLeaves = []fcheck.Leaf{
	{Path: []string{"docid"}, Reps: []sch.FieldRepetitionType{req}, Type: sch.Type_INT64},
	{Path: []string{"links", "backward"}, Reps: []sch.FieldRepetitionType{opt, rep}, Type: sch.Type_INT64},
	{Path: []string{"links", "forward"}, Reps: []sch.FieldRepetitionType{opt, rep}, Type: sch.Type_INT64},
	{Path: []string{"names", "languages", "code"}, Reps: []sch.FieldRepetitionType{rep, rep, req}, Type: sch.Type_BYTE_ARRAY},
	{Path: []string{"names", "languages", "country"}, Reps: []sch.FieldRepetitionType{rep, rep, opt}, Type: sch.Type_BYTE_ARRAY},
	{Path: []string{"names", "url"}, Reps: []sch.FieldRepetitionType{rep, opt}, Type: sch.Type_BYTE_ARRAY},
	{Path: []string{"a", "inner", "x"}, Reps: []sch.FieldRepetitionType{req, req, req}, Type: sch.Type_INT32},
	{Path: []string{"b", "inner", "x"}, Reps: []sch.FieldRepetitionType{opt, opt, opt}, Type: sch.Type_FLOAT},
	{Path: []string{"b", "inner", "y"}, Reps: []sch.FieldRepetitionType{opt, opt, req}, Type: sch.Type_BOOLEAN},
	{Path: []string{"meta", "owner", "tags"}, Reps: []sch.FieldRepetitionType{req, opt, rep}, Type: sch.Type_BYTE_ARRAY},
	{Path: []string{"meta", "owner", "name"}, Reps: []sch.FieldRepetitionType{req, opt, req}, Type: sch.Type_BYTE_ARRAY},
	{Path: []string{"meta", "rev"}, Reps: []sch.FieldRepetitionType{req, req}, Type: sch.Type_INT32},
	{Path: []string{"box", "mid", "own", "l"}, Reps: []sch.FieldRepetitionType{req, req, opt, rep}, Type: sch.Type_INT32},
	{Path: []string{"t3", "own", "inner", "l"}, Reps: []sch.FieldRepetitionType{req, opt, req, rep}, Type: sch.Type_INT64},
	{Path: []string{"t4", "own", "deepr", "l"}, Reps: []sch.FieldRepetitionType{req, opt, opt, rep}, Type: sch.Type_BYTE_ARRAY},
	{Path: []string{"t6", "mid", "own", "l"}, Reps: []sch.FieldRepetitionType{opt, req, opt, rep}, Type: sch.Type_BOOLEAN},
	{Path: []string{"tail"}, Reps: []sch.FieldRepetitionType{req}, Type: sch.Type_BYTE_ARRAY},
}

func TestBoundedC02(t *testing.T) {
	ds := deeps(30)
	codecs := map[string]func(*ParquetWriter) error{"uncompressed": Uncompressed, "snappy": Snappy, "gzip": Gzip}
	ids := map[string]sch.CompressionCodec{"uncompressed": sch.CompressionCodec_UNCOMPRESSED, "snappy": sch.CompressionCodec_SNAPPY, "gzip": sch.CompressionCodec_GZIP}
	for name, codec := range codecs {
		for _, batches := range [][]int{{}, {1}, {5}, {30}, {7, 1, 9}, {4, 4, 4, 4, 4}} {
			for _, ps := range []int{1, 2, 3, 5, 1000} {
				func() {
					defer func() {
						if r := recover(); r != nil {
							t.Errorf("REPLAY-FAIL C02 shape=Deep batches=%v page=%d codec=%s: panic: %v", batches, ps, name, r)
						}
					}()
					var buf bytes.Buffer
					w, err := NewParquetWriter(&buf, MaxPageSize(ps), codec)
					if err != nil {
						t.Fatal(err)
					}
					i := 0
					for _, b := range batches {
						for j := 0; j < b; j++ {
							w.Add(ds[i])
							i++
						}
						if err := w.Write(); err != nil {
							t.Fatal(err)
						}
					}
					if err := w.Close(); err != nil {
						t.Fatal(err)
					}
					for _, e := range fcheck.Check(buf.Bytes(), fcheck.Expect{Leaves: deepLeaves, Codec: ids[name], PageSize: ps, Batches: batches}) {
						t.Errorf("REPLAY-FAIL C02 shape=Deep batches=%v page=%d codec=%s: %s", batches, ps, name, e)
					}
				}()
			}
		}
	}
}

func randomDeeps(n int, seed int64) []Deep {
	rng := rand.New(rand.NewSource(seed))
	out := make([]Deep, n)
	for i := range out {
		fcheck.RandomRecord(&out[i], rng)
	}
	return out
}

func diffColumns(got, want map[string][]fcheck.Entry) string {
	for k, w := range want {
		g := got[k]
		if len(g) != len(w) {
			return fmt.Sprintf("column %s: %d entries in the file, canonical striping has %d", k, len(g), len(w))
		}
		for i := range w {
			if g[i].Rep != w[i].Rep || g[i].Def != w[i].Def || !bytes.Equal(g[i].Val, w[i].Val) {
				return fmt.Sprintf("column %s entry %d: file has (r=%d d=%d v=%x), canonical striping (r=%d d=%d v=%x)", k, i, g[i].Rep, g[i].Def, g[i].Val, w[i].Rep, w[i].Def, w[i].Val)
			}
		}
	}
	if len(got) != len(want) {
		return fmt.Sprintf("%d columns in the file, %d in the schema", len(got), len(want))
	}
	return ""
}

func writeDeeps(t *testing.T, ds []Deep, ps int, batches []int, codec func(*ParquetWriter) error) []byte {
	var buf bytes.Buffer
	w, err := NewParquetWriter(&buf, MaxPageSize(ps), codec)
	if err != nil {
		t.Fatal(err)
	}
	i := 0
	for _, b := range batches {
		k := 0
		for ; k < b && i < len(ds); k++ {
			w.Add(ds[i])
			i++
		}
		if k > 0 {
			if err := w.Write(); err != nil {
				t.Fatal(err)
			}
		}
	}
	if err := w.Close(); err != nil {
		t.Fatal(err)
	}
	return buf.Bytes()
}

var deepCodecs = map[string]func(*ParquetWriter) error{"uncompressed": Uncompressed, "snappy": Snappy, "gzip": Gzip}

func thorough() bool { return os.Getenv("VERIF_TIER") == "thorough" }

func TestBoundedC03(t *testing.T) {
	rounds := 24
	if thorough() {
		rounds = 480
	}
	for round := 0; round < rounds; round++ {
		n := []int{1, 2, 3, 7, 20, 60}[round%6]
		ds := randomDeeps(n, int64(500+round))
		cname := []string{"uncompressed", "snappy", "gzip"}[round%3]
		ps := []int{1, 2, 5, 1000}[round%4]
		func() {
			defer func() {
				if r := recover(); r != nil {
					t.Errorf("REPLAY-FAIL C03 shape=Deep seed=%d records=%d: panic: %v", 500+round, n, r)
				}
			}()
			file := writeDeeps(t, ds, ps, []int{n/2 + 1, n}, deepCodecs[cname])
			got, err := fcheck.ColumnsOf(file, deepLeaves)
			if err != nil {
				t.Errorf("REPLAY-FAIL C03 shape=Deep seed=%d records=%d: columns not decodable: %v", 500+round, n, err)
				return
			}
			want := map[string][]fcheck.Entry{}
			for _, d := range ds {
				fcheck.Stripe(d, want)
			}
			if d := diffColumns(got, want); d != "" {
				t.Errorf("REPLAY-FAIL C03 shape=Deep seed=%d records=%d page=%d: %s", 500+round, n, ps, d)
			}
		}()
	}
}

func TestBoundedC01(t *testing.T) {
	rounds := 30
	if thorough() {
		rounds = 400
	}
	for round := 0; round < rounds; round++ {
		n := []int{0, 1, 2, 5, 9, 33, 90}[round%7]
		ds := randomDeeps(n, int64(700+round))
		cname := []string{"uncompressed", "snappy", "gzip"}[round%3]
		ps := []int{1, 2, 3, 7, 1000}[round%5]
		batches := [][]int{{n}, {n / 2, n}, {1, n / 3, n}}[round%3]
		fail := func(f string, a ...interface{}) {
			t.Errorf("REPLAY-FAIL C01 shape=Deep seed=%d records=%d page=%d codec=%s batches=%v: %s", 700+round, n, ps, cname, batches, fmt.Sprintf(f, a...))
		}
		func() {
			defer func() {
				if r := recover(); r != nil {
					fail("panic: %v", r)
				}
			}()
			file := writeDeeps(t, ds, ps, batches, deepCodecs[cname])
			pr, err := NewParquetReader(bytes.NewReader(file))
			if err != nil {
				fail("NewParquetReader: %v", err)
				return
			}
			if pr.Rows() != int64(n) {
				fail("Rows()=%d, %d records written", pr.Rows(), n)
			}
			var got []*Deep
			for pr.Next() {
				x := new(Deep)
				pr.Scan(x)
				got = append(got, x)
			}
			if pr.Error() != nil {
				fail("Error()=%v", pr.Error())
				return
			}
			if len(got) != n {
				fail("Next() true %d times, %d records written", len(got), n)
				return
			}
			for k := range got {
				a, b := map[string][]fcheck.Entry{}, map[string][]fcheck.Entry{}
				fcheck.Stripe(*got[k], a)
				fcheck.Stripe(ds[k], b)
				if d := diffColumns(a, b); d != "" {
					fail("record %d differs after the round trip: %s", k, d)
					return
				}
			}
		}()
	}
}
