package pro

// an optional leaf in a required group inside a list (shape of known finding D12)
type L2 struct {
	V *string `parquet:"v"`
}
type L1 struct {
	G1 L2 `parquet:"g1"`
}
type T struct {
	G0 []L1 `parquet:"g0"`
}
