package prr

// a required group inside a list (the shape of repaired finding D11)
type L2 struct {
	V int32  `parquet:"v"`
	S string `parquet:"s"`
}
type L1 struct {
	G1 L2    `parquet:"g1"`
	X1 int64 `parquet:"x1"`
}
type T struct {
	G0 []L1 `parquet:"g0"`
	X0 int64 `parquet:"x0"`
}
