package ppr

// a required group inside a list inside a list, required and optional leaves
type L3 struct {
	V int32   `parquet:"v"`
	O *string `parquet:"o"`
}
type L2 struct {
	G2 L3 `parquet:"g2"`
}
type L1 struct {
	G1 []L2 `parquet:"g1"`
}
type T struct {
	G0 []L1 `parquet:"g0"`
	X0 int64 `parquet:"x0"`
}
