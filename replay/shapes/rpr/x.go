package rpr

// required group, list, required group, required leaf
type L3 struct {
	V int32 `parquet:"v"`
}
type L2 struct {
	G2 L3    `parquet:"g2"`
	W  int32 `parquet:"w"`
}
type L1 struct {
	G1 []L2 `parquet:"g1"`
}
type T struct {
	G0 L1    `parquet:"g0"`
	X0 int64 `parquet:"x0"`
}
