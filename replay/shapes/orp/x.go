package orp

// optional group, required group, list, repeated leaf (shape of known finding D10, third form)
type L3 struct {
	V []string `parquet:"v"`
}
type L2 struct {
	G2 []L3 `parquet:"g2"`
}
type L1 struct {
	G1 L2 `parquet:"g1"`
}
type T struct {
	G0 *L1 `parquet:"g0"`
}
