#!/usr/bin/env python3
# developer tool: explore struct shapes (chains of required/optional/repeated groups above a leaf)
# with freshly generated code: does it compile, does the file pass the independent structural
# check, do the columns equal the independent striping, does the round trip return the records?
import itertools, os, subprocess, sys, tempfile, shutil
env=dict(os.environ, GOFLAGS='-mod=mod', GOPROXY='off', GOSUMDB='off', GOTOOLCHAIN='local')
T=tempfile.mkdtemp()
subprocess.run(['go','build','-o',T+'/parquetgen','./cmd/parquetgen'],cwd=os.environ.get('SHAPES_REPO','/repo'),env=env,check=True)
m=T+'/m'; os.makedirs(m)
open(m+'/go.mod','w').write('module replay\n\ngo 1.20\n\nrequire github.com/parsyl/parquet v0.0.0\n\nreplace github.com/parsyl/parquet => '+os.environ.get('SHAPES_REPO','/repo')+'\n')
shutil.copy(os.environ.get('SHAPES_REPO','/repo')+'/go.sum',m+'/go.sum'); shutil.copytree('/verif/replay/fcheck',m+'/fcheck')
TEST='''package %(pkg)s
import ("bytes";"math/rand";"testing";"fmt";"replay/fcheck")
func TestShape(t *testing.T){
 rng:=rand.New(rand.NewSource(7))
 leaves:=fcheck.LeavesOf(T{})
 for round:=0;round<60;round++{
  func(){
   defer func(){ if r:=recover();r!=nil{ t.Errorf("PANIC round %%d: %%v",round,r)}}()
   n:=1+round%%6
   rs:=make([]T,n); for i:=range rs{ fcheck.RandomRecord(&rs[i],rng)}
   var buf bytes.Buffer
   w,_:=NewParquetWriter(&buf, MaxPageSize(1+round%%4)); for _,r:=range rs{w.Add(r)}; w.Write(); w.Close()
   for _,e:=range fcheck.Check(buf.Bytes(), fcheck.Expect{Leaves:leaves,Codec:-1,PageSize:1+round%%4,Batches:[]int{n}}){ t.Errorf("STRUCT round %%d: %%s",round,e)}
   got,err:=fcheck.ColumnsOf(buf.Bytes(),leaves); want:=map[string][]fcheck.Entry{}; for _,r:=range rs{fcheck.Stripe(r,want)}
   if err!=nil{ t.Errorf("STRIPE round %%d: undecodable %%v",round,err)} else if fmt.Sprint(got)!=fmt.Sprint(want){ t.Errorf("STRIPE round %%d: columns differ from the canonical striping",round)}
   pr,err:=NewParquetReader(bytes.NewReader(buf.Bytes())); if err!=nil{t.Errorf("READ round %%d: %%v",round,err);return}
   i:=0
   for pr.Next(){ var x T; pr.Scan(&x); a,b:=map[string][]fcheck.Entry{},map[string][]fcheck.Entry{}; fcheck.Stripe(x,a); if i<n {fcheck.Stripe(rs[i],b)}; if fmt.Sprint(a)!=fmt.Sprint(b){ t.Errorf("ROUNDTRIP round %%d record %%d differs",round,i); return}; i++}
   if i!=n || pr.Error()!=nil { t.Errorf("ROUNDTRIP round %%d: %%d of %%d records, err %%v",round,i,n,pr.Error())}
  }()
 }
}
'''
def shape(chain, leafkind, leaftype):
    # chain: string over R,O,P for groups from top to bottom
    types=[]; inner='V '+{'R':'','O':'*','P':'[]'}[leafkind]+leaftype+' `parquet:"v"`\n  W int32 `parquet:"w"`'
    name='L%d'%len(chain)
    types.append('type %s struct{ %s }'%(name,inner))
    for i in range(len(chain)-1,-1,-1):
        k=chain[i]; n2='L%d'%i if i>0 else 'T'
        types.append('type %s struct{ G%d %s%s `parquet:"g%d"`; X%d int64 `parquet:"x%d"` }'%(n2,i,{'R':'','O':'*','P':'[]'}[k],name,i,i,i))
        name=n2
    if not chain: types=['type T struct{ %s }'%inner]
    return '\n'.join(reversed(types))
res=[]
chains=[''.join(c) for d in range(0,(int(sys.argv[1]) if len(sys.argv)>1 else 3)+1) for c in itertools.product('ROP',repeat=d)]
for ch in chains:
  for lk in 'ROP':
    pkg='s_'+(ch.lower() or 'flat')+'_'+lk.lower()
    d=m+'/'+pkg; os.makedirs(d)
    open(d+'/x.go','w').write('package %s\n%s\n'%(pkg,shape(ch,lk,'string' if lk!='R' else 'int32')))
    open(d+'/x_test.go','w').write(TEST%{'pkg':pkg})
    g=subprocess.run([T+'/parquetgen','-input','x.go','-type','T','-package',pkg,'-output','parquet.go'],cwd=d,env=env,capture_output=True,text=True)
    if g.returncode!=0:
        res.append((ch,lk,"GEN-FAIL",g.stderr[:80])); print(res[-1],flush=True); continue
    r=subprocess.run(['go','test','-count=1','-vet=off','.'],cwd=d,env=env,capture_output=True,text=True)
    out=r.stdout+r.stderr
    if "[build failed]" in out:
        res.append((ch,lk,"NOCOMPILE",[l for l in out.split("\n") if ".go:" in l][:1])); print(res[-1],flush=True); continue
    kinds=sorted(set(w for l in out.split('\n') for w in ('PANIC','STRUCT','STRIPE','ROUNDTRIP','READ') if w+' round' in l))
    res.append((ch,lk,'OK' if r.returncode==0 else 'FAIL '+','.join(kinds), [l.strip()[:140] for l in out.split('\n') if ' round ' in l][:1]))
    print(res[-1],flush=True)
shutil.rmtree(T)
