#!/usr/bin/env python3
# developer aid: split the goal of a kept obligation file into its top-level conjuncts and try each
import sys, subprocess
def parse(s, i=0):
    # returns list of top-level sexprs in s
    out=[]; d=0; st=None
    for k,c in enumerate(s):
        if c=='(':
            if d==0: st=k
            d+=1
        elif c==')':
            d-=1
            if d==0: out.append(s[st:k+1])
        elif d==0 and not c.isspace():
            # atom
            if st is None or k>0 and s[k-1].isspace() or k==0:
                j=k
                while j<len(s) and not s[j].isspace() and s[j] not in '()': j+=1
                if not out or not out[-1].endswith(s[k:j]) or True:
                    pass
    return out
def args(e):
    inner=e[1:-1]
    sp=inner.index(' ')
    return inner[:sp], parse(inner[sp:]) , inner[sp:]
f=sys.argv[1]
L=open(f).read().split('\n')
gi=[i for i,l in enumerate(L) if l.startswith('(assert (not ')][-1]
g=L[gi][len('(assert (not '):-2]
ante=[]
while g.startswith('(=> '):
    op,a,_=args(g)
    ante.append(a[0]); g=a[1]
conj=[g]
if g.startswith('(and '):
    conj=args(g)[1]
    def fl(cs):
        out=[]
        for c in cs:
            if c.startswith('(and '): out+=fl(args(c)[1])
            else: out.append(c)
        return out
    conj=fl(conj)
for c in conj:
    goal=c
    for a in reversed(ante): goal='(=> %s %s)'%(a,goal)
    M=L[:]; M[gi]='(assert (not %s))'%goal
    open('/tmp/split_t.smt2','w').write('\n'.join(M))
    r=subprocess.run(['z3-new','-T:10','/tmp/split_t.smt2'],capture_output=True,text=True).stdout.split('\n')[0]
    print(r, c[:160])
